/-
  RPFC, part 5: `StringDictionaryRPFC::locate` over any grammar and streams that store the dictionary
  returns the rank of a member and 0 for every other NUL-free query.
-/
import CSD.Lemmas.RPFC4
import CSD.Lemmas.PFCLocate4

namespace CSD.RPFC
open CSD.RePair CSD.PFC

theorem clamp_of_ge2 {b : Nat} (h : 2 ≤ b) : clamp b = b := by
  unfold clamp
  have : ¬ b < 2 := by omega
  simp [this]

/-- The header of bucket `c` is `S[(c - 1) · b]`. -/
theorem header_stores {S : List Str} {d : D} (hst : Stores S d) (c : Nat) (hc1 : 1 ≤ c)
    (hcn : (c - 1) * d.bucketsize < S.length) : header d c = some S[(c - 1) * d.bucketsize] := by
  have hb0 : d.bucketsize ≠ 0 := by have := hst.b2; omega
  unfold header
  have : ¬ c = 0 := by omega
  simp only [this, ↓reduceIte]
  rw [hst.headers, List.getElem?_map, chunks_getElem? d.bucketsize hb0 S (c - 1) hcn]
  simp only [Option.map_some]
  congr 1
  rw [List.drop_eq_getElem_cons hcn, List.take_cons (by have := hst.b2; omega)]
  rfl

theorem locateBucketLoop_spec {S : List Str} {d : D} (hst : Stores S d) (q : Str)
    (hS : ∀ s ∈ S, nulFree s) (hq : nulFree q) (hsort : SortedLt S) :
    ∀ (fuel left right center : Nat) (cmp : Int),
      1 ≤ left → (right = 0 ∨ (right - 1) * d.bucketsize < S.length) → left ≤ right + 1 → right + 1 - left ≤ fuel →
      (∀ j, 1 ≤ j → j < left → ∀ h, S[(j - 1) * d.bucketsize]? = some h → scmp h q < 0) →
      (∀ j, right < j → ∀ h, S[(j - 1) * d.bucketsize]? = some h → scmp h q > 0) →
      (right < left → (if cmp < 0 then center else center - 1) = right) →
      ∃ res, locateBucketLoop d q fuel left right center cmp = some res ∧ GoodBucket d.bucketsize S q res := by
  have hb := hst.b2
  have hcl := clamp_of_ge2 hb
  intro fuel
  induction fuel with
  | zero =>
    intro left right center cmp h1 hr hlr hfuel hlo hhi hcons
    have hrl : right < left := by omega
    refine ⟨.candidate right, ?_, ?_⟩
    · simp [locateBucketLoop, hcons hrl]
    · unfold GoodBucket; rw [hcl]
      exact ⟨hr, fun j hj1 hj2 => hlo j hj1 (by omega), hhi⟩
  | succ fuel ih =>
    intro left right center cmp h1 hr hlr hfuel hlo hhi hcons
    by_cases hle : left ≤ right
    · simp only [locateBucketLoop, hle, ↓reduceIte]
      generalize hc : (left + right) / 2 = c
      have hc1 : left ≤ c := by rw [← hc]; omega
      have hc2 : c ≤ right := by rw [← hc]; omega
      have hrpos : (right - 1) * d.bucketsize < S.length := by
        rcases hr with h | h
        · omega
        · exact h
      have hcn : (c - 1) * d.bucketsize < S.length :=
        Nat.lt_of_le_of_lt (Nat.mul_le_mul_right _ (by omega)) hrpos
      rw [header_stores hst c (by omega) hcn]
      simp only
      have hhn : nulFree S[(c - 1) * d.bucketsize] := hS _ (List.getElem_mem _)
      have hget : S[(c - 1) * d.bucketsize]? = some S[(c - 1) * d.bucketsize] := List.getElem?_eq_getElem hcn
      by_cases hgt : scmp S[(c - 1) * d.bucketsize] q > 0
      · simp only [hgt, ↓reduceIte]
        apply ih left (c - 1) c _ h1
        · by_cases hc0 : c - 1 = 0
          · exact Or.inl hc0
          · refine Or.inr (Nat.lt_of_le_of_lt (Nat.mul_le_mul_right _ (by omega)) hcn)
        · omega
        · omega
        · exact hlo
        · intro j hj h hjh
          by_cases hjr : right < j
          · exact hhi j hjr h hjh
          · by_cases hjc : j = c
            · subst hjc; rw [hget] at hjh; cases hjh; exact hgt
            · have hjn : (j - 1) * d.bucketsize < S.length := by
                rcases Nat.lt_or_ge ((j - 1) * d.bucketsize) S.length with h' | h'
                · exact h'
                · rw [List.getElem?_eq_none h'] at hjh; cases hjh
              have hlt : (c - 1) * d.bucketsize < (j - 1) * d.bucketsize :=
                Nat.mul_lt_mul_of_lt_of_le (by omega) (Nat.le_refl _) (by omega)
              have := hsort.getElem_lt hlt hjn
              rw [List.getElem?_eq_getElem hjn] at hjh; cases hjh
              have h2 : scmp q S[(c - 1) * d.bucketsize] < 0 := (scmp_lt_iff_gt _ _).mpr hgt
              exact (scmp_lt_iff_gt _ _).mp (scmp_trans_lt h2 this)
        · intro _; simp; omega
      · simp only [hgt, ↓reduceIte]
        by_cases hlt : scmp S[(c - 1) * d.bucketsize] q < 0
        · simp only [hlt, ↓reduceIte]
          apply ih (c + 1) right c _ (by omega) hr (by omega) (by omega)
          · intro j hj1 hj2 h hjh
            by_cases hjl : j < left
            · exact hlo j hj1 hjl h hjh
            · by_cases hjc : j = c
              · subst hjc; rw [hget] at hjh; cases hjh; exact hlt
              · have hjn : (j - 1) * d.bucketsize < S.length :=
                  Nat.lt_of_le_of_lt (Nat.mul_le_mul_right _ (by omega)) hcn
                have hlt' : (j - 1) * d.bucketsize < (c - 1) * d.bucketsize :=
                  Nat.mul_lt_mul_of_lt_of_le (by omega) (Nat.le_refl _) (by omega)
                have := hsort.getElem_lt hlt' hcn
                rw [List.getElem?_eq_getElem hjn] at hjh; cases hjh
                exact scmp_trans_lt this hlt
          · exact hhi
          · intro hh; simp [hlt]; omega
        · simp only [hlt, ↓reduceIte]
          have h0 : scmp S[(c - 1) * d.bucketsize] q = 0 := by omega
          have heq := (scmp_eq_zero hhn hq).mp h0
          refine ⟨.header c, rfl, ?_⟩
          unfold GoodBucket; rw [hcl]
          exact ⟨by omega, hcn, by rw [hget, heq]⟩
    · have hrl : right < left := by omega
      refine ⟨.candidate right, ?_, ?_⟩
      · simp [locateBucketLoop, hle, hcons hrl]
      · unfold GoodBucket; rw [hcl]
        exact ⟨hr, fun j hj1 hj2 => hlo j hj1 (by omega), hhi⟩

/-- **The scan loop is exact.** With `decoded` the last decoded string (below the query), its lcp with the
query, and the remaining strings of the bucket stored in the stream, the loop returns the in-bucket index
of the query if it is among them and 0 otherwise. -/
theorem scanLoop_spec (d : D) (q : Str) (hq : nulFree q) :
    ∀ (L : List Str) (decoded : Str) (i fuel scanneable : Nat) (σ : List Nat),
      StoresTail d.g d.maxchar decoded L σ → ChainOK d.maxchar decoded L → chain decoded L →
      (∀ s ∈ L, nulFree s) → scanneable = i + L.length → L.length ≤ fuel → scmp decoded q < 0 →
      scanLoop d q fuel i scanneable σ decoded (lcp decoded q) = some (foundAt q i L) := by
  intro L
  induction L with
  | nil =>
    intro decoded i fuel scanneable σ _ _ _ _ hsc _ _
    have : ¬ i < scanneable := by simp at hsc; omega
    cases fuel <;> simp [scanLoop, this, foundAt]
  | cons c L ih =>
    intro decoded i fuel scanneable σ hst hok hch hnf hsc hfuel hdq
    have hc : nulFree c := hnf c (by simp)
    have hL : ∀ s ∈ L, nulFree s := fun s hs => hnf s (by simp [hs])
    obtain ⟨fuel', rfl⟩ : ∃ f, fuel = f + 1 := ⟨fuel - 1, by simp at hfuel; omega⟩
    have hi : i < scanneable := by simp at hsc; omega
    have hgt : ∀ s ∈ L, scmp c s < 0 := chain_all_gt hch.2
    cases hst with
    | cons _ _ _ σ1 τ hexp hne htail =>
      obtain ⟨⟨h1, h2, h3⟩, hok'⟩ := hok
      simp only [scanLoop, hi, ↓reduceIte]
      rw [decodeString_spec d decoded c σ1 τ hexp hne h1 h2 h3]
      simp only
      by_cases hlt : lcp decoded c < lcp decoded q
      · simp only [hlt, ↓reduceIte]
        have hqc : scmp q c < 0 := gt_of_lcp_lt decoded c q hlt hch.1
        have : q ∉ c :: L := by
          apply not_mem_of_all_gt
          intro s hs
          rcases List.mem_cons.mp hs with e | e
          · subst e; exact hqc
          · exact scmp_trans_lt hqc (hgt s e)
        simp [foundAt, idxOf?_of_not_mem this]
      · simp only [hlt, ↓reduceIte]
        have hk : lcp decoded q ≤ lcp c q := by
          have := min_lcp_le decoded c q
          have h' : lcp decoded q ≤ lcp decoded c := by omega
          rw [Nat.min_eq_right h'] at this
          exact this
        have hs1 : scmp (c.drop (lcp decoded q)) (q.drop (lcp decoded q)) = scmp c q :=
          (scmp_drop_lcp c q _ hk).symm
        have hs2 : lcp decoded q + lcp (c.drop (lcp decoded q)) (q.drop (lcp decoded q)) = lcp c q :=
          (lcp_add_drop c q _ hk).symm
        have hcf : cmpFrom c q (lcp decoded q) = (scmp c q, lcp c q) := by
          simp only [cmpFrom, hs1, hs2]
        rw [hcf]
        simp only
        by_cases h0 : scmp c q = 0
        · have : c = q := (scmp_eq_zero hc hq).mp h0
          subst this
          simp [h0, foundAt, idxOf?_cons_self]
        · simp only [h0, ↓reduceIte]
          by_cases hpos : scmp c q > 0
          · simp only [hpos, ↓reduceIte]
            have hqc : scmp q c < 0 := (scmp_lt_iff_gt q c).mpr hpos
            have : q ∉ c :: L := by
              apply not_mem_of_all_gt
              intro s hs
              rcases List.mem_cons.mp hs with e | e
              · subst e; exact hqc
              · exact scmp_trans_lt hqc (hgt s e)
            simp [foundAt, idxOf?_of_not_mem this]
          · simp only [hpos, ↓reduceIte]
            have hneg : scmp c q < 0 := by omega
            have hne' : c ≠ q := fun e => h0 (by rw [e, scmp_self])
            rw [ih c (i + 1) fuel' scanneable τ htail hok' hch.2 hL
              (by simp at hsc; omega) (by simp at hfuel; omega) hneg]
            simp only [foundAt, idxOf?_cons_ne hne']
            cases L.idxOf? q <;> simp <;> omega

end CSD.RPFC
