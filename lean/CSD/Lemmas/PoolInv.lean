import CSD.Model.Pool

/-! Invariants of the repaired worker pool. -/
namespace CSD.Pool

@[simp] theorem upd_same {α} (f : Nat → α) (i : Nat) (v : α) : upd f i v i = v := by simp [upd]
theorem upd_other {α} (f : Nat → α) (i j : Nat) (v : α) (h : j ≠ i) : upd f i v j = f j := by simp [upd, h]

/-- pcs at which a worker holds `shared_mutex`. -/
def WPc.holding : WPc → Bool
  | .pred | .sleep | .check => true
  | _ => false

/-- pcs at which the producer holds `shared_mutex`. -/
def PPc.holding : PPc → Bool
  | .addPush _ _ | .stopSet _ => true
  | _ => false

/-- The producer has changed (or is about to change, holding the mutex) the
shared state and has a `notify_all` ahead of it. -/
def PPc.willNotify : PPc → Bool
  | .addPush _ _ | .addNotify _ | .stopSet _ | .stopNotify => true
  | _ => false

/-- The producer has started `stop_all_workers` (no `add_task` remains). -/
def PPc.stopping : PPc → Bool
  | .stopSet _ | .stopNotify | .join | .done => true
  | _ => false

structure Inv (s : State) : Prop where
  /-- mutual exclusion, tied to the program counters -/
  mutexW : ∀ i, s.mutex = some (.worker i) ↔ (i < s.n ∧ (s.wpc i).holding = true)
  mutexP : s.mutex = some .prod ↔ s.prod.holding = true
  mutexS : ∀ i, s.mutex ≠ some (.spurious i)
  /-- a worker about to block has (still) a false predicate -/
  sleepFalse : ∀ i, i < s.n → s.wpc i = .sleep → s.stopped i = false ∧ s.queue = []
  /-- a blocked worker whose predicate is true has a notification coming -/
  waitingOk : ∀ i, i < s.n → s.wpc i = .waiting → (s.stopped i = true ∨ s.queue ≠ []) →
    s.prod.willNotify = true
  /-- stop flags: set only by `stop_all_workers`, all set once it is past its loop -/
  flagsOnlyStop : ∀ i, s.stopped i = true → s.prod.stopping = true
  flagsAll : (s.prod = .stopNotify ∨ s.prod = .join ∨ s.prod = .done) → ∀ i, i < s.n → s.stopped i = true
  flagsPrefix : ∀ k, s.prod = .stopSet k → ∀ i, i < k → s.stopped i = true
  /-- the producer finishes only after every worker has -/
  doneAll : s.prod = .done → ∀ i, i < s.n → s.wpc i = .done

theorem nextAdd_not_holding (r : List Nat) : (nextAdd r).holding = false := by
  cases r <;> rfl

theorem inv_init (n : Nat) (tasks : List Nat) : Inv (init n tasks) := by
  have hh := nextAdd_not_holding tasks
  constructor
  · intro i; simp [init, WPc.holding]
  · simp [init, hh]
  · intro i; simp [init]
  · intro i _ h; simp [init] at h
  · intro i _ h; simp [init] at h
  · intro i h; simp [init] at h
  · intro h; cases tasks <;> simp [init, nextAdd] at h
  · intro k h; cases tasks <;> simp [init, nextAdd] at h
  · intro h; cases tasks <;> simp [init, nextAdd] at h

end CSD.Pool
