/-
  The symbol packing of RPFC: `unpack` (repeated `decodeSymbol`, most significant bit first) inverts the
  packing of `w`-bit fields, whatever padding of fewer than `w` bits follows (the constructor pads the last
  byte of a bucket with zeros, and `w ≥ 9`).
-/
import CSD.Model.RPFCImage

namespace CSD.RPFCImg

/-- The `w` bits of a symbol, most significant first (what `encodeSymbol` writes). -/
def bitsOfSym (w x : Nat) : List Bool := (List.range w).map fun i => x.testBit (w - 1 - i)

def pack (w : Nat) (syms : List Nat) : List Bool := syms.flatMap (bitsOfSym w)

theorem bitsOfSym_length (w x : Nat) : (bitsOfSym w x).length = w := by simp [bitsOfSym]

theorem natOfBits_append_single (l : List Bool) (b : Bool) :
    natOfBits (l ++ [b]) = 2 * natOfBits l + (if b then 1 else 0) := by
  simp [natOfBits, List.foldl_append]

/-- Reading `k` bits written most-significant-first gives the top `k` bits of the value. -/
theorem natOfBits_prefix (w x : Nat) : ∀ k, k ≤ w →
    natOfBits ((List.range k).map fun i => x.testBit (w - 1 - i)) = (x % 2 ^ w) / 2 ^ (w - k)
  | 0, _ => by
    simp only [List.range_zero, List.map_nil, natOfBits, List.foldl_nil, Nat.sub_zero]
    exact (Nat.div_eq_of_lt (Nat.mod_lt _ (Nat.two_pow_pos w))).symm
  | k + 1, hk => by
    rw [List.range_succ, List.map_append, List.map_singleton, natOfBits_append_single, natOfBits_prefix w x k (by omega)]
    have hsplit : w - k = (w - (k + 1)) + 1 := by omega
    have hb : x.testBit (w - 1 - k) = decide (((x % 2 ^ w) / 2 ^ (w - (k + 1))) % 2 = 1) := by
      have e : w - 1 - k = w - (k + 1) := by omega
      rw [e, Nat.testBit_eq_decide_div_mod_eq]
      have : (x % 2 ^ w) / 2 ^ (w - (k + 1)) % 2 = x / 2 ^ (w - (k + 1)) % 2 := by
        obtain ⟨a, ha⟩ : ∃ a, w = a + (k + 1) := ⟨w - (k + 1), by omega⟩
        subst ha
        have e2 : a + (k + 1) - (k + 1) = a := by omega
        rw [e2, Nat.pow_add, Nat.mod_mul_right_div_self, Nat.pow_succ, Nat.mod_mul_left_mod]
      rw [this]
    rw [hb, hsplit, Nat.pow_succ, ← Nat.div_div_eq_div_mul]
    generalize (x % 2 ^ w) / 2 ^ (w - (k + 1)) = y
    have := Nat.div_add_mod y 2
    rcases Nat.mod_two_eq_zero_or_one y with h | h <;> simp [h] <;> omega

theorem natOfBits_bitsOfSym (w x : Nat) (hx : x < 2 ^ w) : natOfBits (bitsOfSym w x) = x := by
  have := natOfBits_prefix w x w (Nat.le_refl _)
  unfold bitsOfSym
  rw [this, Nat.sub_self, Nat.pow_zero, Nat.div_one, Nat.mod_eq_of_lt hx]

/-- **`unpack ∘ pack = id`**: the symbols come back, and padding shorter than a field is ignored. -/
theorem unpack_pack (w : Nat) (hw : 0 < w) : ∀ (syms : List Nat) (pad : List Bool) (fuel : Nat),
    (∀ x ∈ syms, x < 2 ^ w) → pad.length < w → syms.length < fuel →
    unpack w fuel (pack w syms ++ pad) = syms
  | [], pad, fuel, _, hp, hf => by
    obtain ⟨f, rfl⟩ : ∃ f, fuel = f + 1 := ⟨fuel - 1, by simp at hf; omega⟩
    simp only [pack, List.flatMap_nil, List.nil_append, unpack]
    have : w = 0 ∨ pad.length < w := Or.inr hp
    simp [this]
  | x :: syms, pad, fuel, hx, hp, hf => by
    obtain ⟨f, rfl⟩ : ∃ f, fuel = f + 1 := ⟨fuel - 1, by simp at hf; omega⟩
    have hlen := bitsOfSym_length w x
    simp only [pack, List.flatMap_cons, List.append_assoc, unpack]
    have hnot : ¬ (w = 0 ∨ (bitsOfSym w x ++ (List.flatMap (bitsOfSym w) syms ++ pad)).length < w) := by
      simp only [List.length_append, hlen]; omega
    simp only [hnot, ↓reduceIte]
    have ht : (bitsOfSym w x ++ (List.flatMap (bitsOfSym w) syms ++ pad)).take w = bitsOfSym w x := by
      exact List.take_left' hlen
    have hd : (bitsOfSym w x ++ (List.flatMap (bitsOfSym w) syms ++ pad)).drop w = List.flatMap (bitsOfSym w) syms ++ pad := by
      exact List.drop_left' hlen
    rw [ht, hd, natOfBits_bitsOfSym w x (hx x (by simp))]
    congr 1
    exact unpack_pack w hw syms pad f (fun y hy => hx y (by simp [hy])) hp (by simp at hf; omega)

end CSD.RPFCImg
