/-
  FM-index, part 1: counting over the sorted rows of a text.

  * `filter_eq_take`: in a sorted list a downward-closed predicate selects a prefix.
  * `count_shift`: rows whose suffix starts with `c` and continues with a suffix
    satisfying `q` are as many as rows preceded by `c` whose suffix satisfies `q`
    (the suffix `c :: t` and the suffix `t` preceded by `c` are the same place of the text).
  * `step`: the counting form of the LF-mapping — for every downward-closed `q`,
    `#{s : s < [c] ∨ s = c :: t ∧ q t} = C[c] + rank_c(bwt, #{s : q s})`.
-/
import CSD.Model.FM

namespace CSD.FM

/-! ### Sorted lists -/

theorem filter_eq_take {α : Type} (R : α → α → Prop) (p : α → Bool)
    (hdc : ∀ a b, R a b → p b = true → p a = true) :
    ∀ L : List α, L.Pairwise R → L.filter p = L.take (L.countP p)
  | [], _ => by simp
  | a :: L, h => by
    have ⟨ha, hL⟩ := List.pairwise_cons.mp h
    by_cases hp : p a = true
    · simp [hp, filter_eq_take R p hdc L hL]
    · have hnone : ∀ b ∈ L, ¬ p b = true := fun b hb hpb => hp (hdc a b (ha b hb) hpb)
      have h1 : L.filter p = [] := List.filter_eq_nil_iff.mpr hnone
      have h2 : L.countP p = 0 := List.countP_eq_zero.mpr hnone
      simp [hp, h1, h2]

theorem countP_or_disjoint {α : Type} (p r : α → Bool) (hd : ∀ a, ¬ (p a = true ∧ r a = true)) :
    ∀ L : List α, L.countP (fun a => p a || r a) = L.countP p + L.countP r
  | [] => by simp
  | a :: L => by
    have ih := countP_or_disjoint p r hd L
    have := hd a
    simp only [List.countP_cons, ih]
    cases hp : p a <;> cases hr : r a <;> simp_all <;> omega

/-! ### Rows -/

/-- The row's suffix starts with `c` and goes on with a suffix satisfying `q`. -/
def startsC (c : Sym) (q : List Sym → Bool) (r : Row) : Bool :=
  match r.2 with
  | x :: t => x == c && q t
  | [] => false

/-- The row is preceded by `c` and its suffix satisfies `q`. -/
def precC (c : Sym) (q : List Sym → Bool) (r : Row) : Bool := r.1 == some c && q r.2

theorem count_shift (c : Sym) (q : List Sym → Bool) : ∀ (T : List Sym) (p : Option Sym),
    (rowsFrom p T).countP (startsC c q) + (if p = some c ∧ q T = true then 1 else 0)
      = (rowsFrom p T).countP (precC c q)
  | [], p => by
    simp only [rowsFrom, List.countP_cons, List.countP_nil, startsC, precC]
    by_cases h1 : p = some c <;> by_cases h2 : q [] = true <;> simp [h1, h2]
  | x :: T, p => by
    have ih := count_shift c q T (some x)
    simp only [rowsFrom, List.countP_cons, startsC, precC] at ih ⊢
    by_cases h1 : p = some c <;> by_cases h3 : x = c <;> by_cases h2 : q (x :: T) = true <;>
      by_cases h4 : q T = true <;> simp_all <;> omega

theorem count_shift_rows (c : Sym) (q : List Sym → Bool) (T : List Sym) :
    (rows T).countP (startsC c q) = (rows T).countP (precC c q) := by
  have := count_shift c q T none
  simpa [rows] using this

/-- Number of rows whose suffix satisfies `q`. -/
def cntq (L : List Row) (q : List Sym → Bool) : Nat := L.countP (fun r => q r.2)

/-- `s < [c]`, or `s = c :: t` with `q t`. -/
def D (c : Sym) (q : List Sym → Bool) (s : List Sym) : Bool :=
  decide (s < [c]) || (match s with | x :: t => x == c && q t | [] => false)

def DownClosed (q : List Sym → Bool) : Prop := ∀ a b : List Sym, a < b → q b = true → q a = true

theorem bwt_eq_iff (r : Row) {c : Sym} (hc : c ≠ 0) : (r.bwt == c) = (r.1 == some c) := by
  rcases r with ⟨p, s⟩
  cases p with
  | none => simp [Row.bwt]; exact fun h => hc h.symm
  | some x => simp [Row.bwt]

theorem step {T : List Sym} {L : List Row} (hSA : IsSA T L) {c : Sym} (hc : c ≠ 0)
    {q : List Sym → Bool} (hq : DownClosed q) :
    cntq L (D c q) = cntq L (fun s => decide (s < [c])) + cnt (L.map Row.bwt) c (cntq L q) := by
  obtain ⟨hperm, hsort⟩ := hSA
  unfold cntq
  -- split the disjunction
  have hsplit : L.countP (fun r => D c q r.2)
      = L.countP (fun r => decide (r.2 < [c])) + L.countP (startsC c q) := by
    have := countP_or_disjoint (fun r : Row => decide (r.2 < [c])) (startsC c q) (by
      rintro ⟨p, s⟩ ⟨h1, h2⟩
      cases s with
      | nil => simp [startsC] at h2
      | cons x t =>
        simp only [startsC, Bool.and_eq_true, beq_iff_eq] at h2
        simp only [decide_eq_true_eq, List.cons_lt_cons_iff, List.not_lt_nil, and_false, or_false] at h1
        have := h2.1
        subst this
        exact Nat.lt_irrefl _ h1) L
    rw [← this]
    apply List.countP_congr
    rintro ⟨p, s⟩ _
    cases s <;> simp [D, startsC]
  rw [hsplit]
  congr 1
  -- shift from "starts with c" to "preceded by c"
  rw [hperm.countP_eq, count_shift_rows, ← hperm.countP_eq]
  -- the rows satisfying q are a prefix of L
  have hpre : L.countP (precC c q) = (L.filter (fun r => q r.2)).countP (fun r => r.1 == some c) := by
    rw [List.countP_filter]
    apply List.countP_congr
    intro r _
    simp [precC]
  rw [hpre, filter_eq_take (fun a b : Row => a.2 < b.2) (fun r => q r.2) (fun a b hab hb => hq a.2 b.2 hab hb) L hsort]
  unfold cnt
  rw [← List.map_take, List.count_eq_countP, List.countP_map]
  apply List.countP_congr
  intro r _
  simp only [Function.comp]
  rw [bwt_eq_iff r hc]

end CSD.FM
