import CSD.Lemmas.PoolMain

/-! A second invariant of the repaired pool: a worker that has left `wait` with a true predicate
still sees it true when it looks at the queue (it has held the mutex in between). -/
namespace CSD.Pool

def InvC (s : State) : Prop :=
  ∀ i, i < s.n → s.wpc i = .check → (s.stopped i = true ∨ s.queue ≠ [])

theorem invC_init (n : Nat) (tasks : List Nat) : InvC (init n tasks) := by
  intro i _ h; simp [init] at h

/-- `notify_all` does not put anybody at `check`. -/
theorem notifyAll_check (s : State) (i : Nat) (h : (notifyAll s).wpc i = .check) : s.wpc i = .check := by
  simp only [notifyAll] at h
  split at h
  · cases h
  · exact h

/-- Frame: if nobody newly arrives at `check`, flags only get set and the queue does not become empty. -/
theorem invC_frame (s s' : State) (hn : s'.n = s.n) (h2 : InvC s)
    (hw : ∀ i, s'.wpc i = .check → s.wpc i = .check)
    (hs : ∀ i, s.stopped i = true → s'.stopped i = true)
    (hq : s.queue ≠ [] → s'.queue ≠ []) : InvC s' := by
  intro i hi hc
  rcases h2 i (by omega) (hw i hc) with h | h
  · exact Or.inl (hs i h)
  · exact Or.inr (hq h)

theorem upd_check {f : Nat → WPc} {k i : Nat} {v : WPc} (hv : v ≠ .check) (h : upd f k v i = .check) : f i = .check := by
  unfold upd at h
  split at h
  · exact absurd h hv
  · exact h

theorem invC_step_worker (s s' : State) (k : Nat) (hI : Inv s) (h2 : InvC s) (h : stepWorker s k = some s') : InvC s' := by
  unfold stepWorker at h
  by_cases hge : k ≥ s.n
  · simp [hge] at h
  · simp only [hge, ↓reduceIte] at h
    have hk : k < s.n := by omega
    cases hpc : s.wpc k with
    | loopStopped =>
      rw [hpc] at h; simp only [Option.some.injEq] at h; subst h
      exact invC_frame s _ rfl h2 (fun i hc => upd_check (by split <;> simp) hc) (fun _ h => h) (fun h => h)
    | loopEmpty =>
      rw [hpc] at h; simp only [Option.some.injEq] at h; subst h
      exact invC_frame s _ rfl h2 (fun i hc => upd_check (by split <;> simp) hc) (fun _ h => h) (fun h => h)
    | lock =>
      rw [hpc] at h
      by_cases hm : s.mutex = none
      · simp only [hm, ↓reduceIte, Option.some.injEq] at h; subst h
        exact invC_frame s _ rfl h2 (fun i hc => upd_check (by simp) hc) (fun _ h => h) (fun h => h)
      · simp [hm] at h
    | wake =>
      rw [hpc] at h
      by_cases hm : s.mutex = none
      · simp only [hm, ↓reduceIte, Option.some.injEq] at h; subst h
        exact invC_frame s _ rfl h2 (fun i hc => upd_check (by simp) hc) (fun _ h => h) (fun h => h)
      · simp [hm] at h
    | pred =>
      rw [hpc] at h; simp only [Option.some.injEq] at h; subst h
      intro i hi hc
      simp only at hc hi ⊢
      by_cases hik : i = k
      · subst hik
        rw [upd_same] at hc
        by_cases hcond : (s.stopped i || !s.queue.isEmpty) = true
        · simp only [Bool.or_eq_true, Bool.not_eq_true', List.isEmpty_eq_false_iff] at hcond
          exact hcond
        · simp [hcond] at hc
      · rw [upd_other _ _ _ _ hik] at hc
        exact h2 i hi hc
    | sleep =>
      rw [hpc] at h; simp only [Option.some.injEq] at h; subst h
      exact invC_frame s _ rfl h2 (fun i hc => upd_check (by simp) hc) (fun _ h => h) (fun h => h)
    | waiting => rw [hpc] at h; simp at h
    | check =>
      rw [hpc] at h
      -- nobody else is at `check`: k holds the mutex
      have honly : ∀ i, i < s.n → s.wpc i = .check → i = k := by
        intro i hi hc
        have h1 := (hI.mutexW i).mpr ⟨hi, by rw [hc]; rfl⟩
        have h2' := (hI.mutexW k).mpr ⟨hk, by rw [hpc]; rfl⟩
        rw [h1] at h2'
        cases h2'; rfl
      have hgen : ∀ (q : List Nat) (v : WPc), v ≠ .check →
          InvC { s with queue := q, mutex := none, wpc := upd s.wpc k v } := by
        intro q v hv i hi hc
        simp only at hc hi
        have := upd_check hv hc
        have hik := honly i hi this
        subst hik
        rw [upd_same] at hc
        exact absurd hc hv
      by_cases hc : (s.stopped k && s.queue.isEmpty) = true
      · simp only [hc, ↓reduceIte, Option.some.injEq] at h; subst h
        exact hgen s.queue .exitNotify (by simp)
      · simp only [hc] at h
        cases hq : s.queue with
        | nil =>
          rw [hq] at h; simp only [Bool.false_eq_true, ↓reduceIte, Option.some.injEq] at h; subst h
          have := hgen s.queue .loopStopped (by simp)
          rw [hq] at this; exact this
        | cons t q =>
          rw [hq] at h; simp only [Bool.false_eq_true, ↓reduceIte, Option.some.injEq] at h; subst h
          exact hgen q (.unlocked t) (by simp)
    | unlocked t =>
      rw [hpc] at h; simp only [Option.some.injEq] at h; subst h
      exact invC_frame s _ rfl h2 (fun i hc => upd_check (by simp) (notifyAll_check _ i hc)) (fun _ h => h) (fun h => h)
    | run t =>
      rw [hpc] at h; simp only [Option.some.injEq] at h; subst h
      exact invC_frame s _ rfl h2 (fun i hc => upd_check (by simp) hc) (fun _ h => h) (fun h => h)
    | exitNotify =>
      rw [hpc] at h; simp only [Option.some.injEq] at h; subst h
      exact invC_frame s _ rfl h2 (fun i hc => upd_check (by simp) (notifyAll_check _ i hc)) (fun _ h => h) (fun h => h)
    | done => rw [hpc] at h; simp at h

theorem invC_step_prod (s s' : State) (h2 : InvC s) (h : stepProd s = some s') : InvC s' := by
  unfold stepProd at h
  cases hp : s.prod with
  | addLock t rest =>
    rw [hp] at h
    by_cases hm : s.mutex = none
    · simp only [hm, ↓reduceIte, Option.some.injEq] at h; subst h
      exact invC_frame s _ rfl h2 (fun _ h => h) (fun _ h => h) (fun h => h)
    · simp [hm] at h
  | addPush t rest =>
    rw [hp] at h; simp only [Option.some.injEq] at h; subst h
    exact invC_frame s _ rfl h2 (fun _ h => h) (fun _ h => h) (fun _ => by simp)
  | addNotify rest =>
    rw [hp] at h; simp only [Option.some.injEq] at h; subst h
    exact invC_frame s _ rfl h2 (fun i hc => notifyAll_check _ i hc) (fun _ h => h) (fun h => h)
  | stopLock =>
    rw [hp] at h
    by_cases hm : s.mutex = none
    · simp only [hm, ↓reduceIte, Option.some.injEq] at h; subst h
      exact invC_frame s _ rfl h2 (fun _ h => h) (fun _ h => h) (fun h => h)
    · simp [hm] at h
  | stopSet k =>
    rw [hp] at h
    by_cases hk : k < s.n
    · simp only [hk, ↓reduceIte, Option.some.injEq] at h; subst h
      refine invC_frame s _ rfl h2 (fun _ h => h) ?_ (fun h => h)
      intro i hi
      simp only [upd]
      split
      · rfl
      · exact hi
    · simp only [hk, ↓reduceIte, Option.some.injEq] at h; subst h
      exact invC_frame s _ rfl h2 (fun _ h => h) (fun _ h => h) (fun h => h)
  | stopNotify =>
    rw [hp] at h; simp only [Option.some.injEq] at h; subst h
    exact invC_frame s _ rfl h2 (fun i hc => notifyAll_check _ i hc) (fun _ h => h) (fun h => h)
  | join =>
    rw [hp] at h
    by_cases hd : ∀ i, i < s.n → s.wpc i = .done
    · rw [if_pos hd] at h; simp only [Option.some.injEq] at h; subst h
      exact invC_frame s _ rfl h2 (fun _ h => h) (fun _ h => h) (fun h => h)
    · simp [hd] at h
  | done => rw [hp] at h; simp at h

theorem invC_step (s s' : State) (t : Tid) (hI : Inv s) (h2 : InvC s) (h : step s t = some s') : InvC s' := by
  cases t with
  | prod => exact invC_step_prod s s' h2 h
  | worker i => exact invC_step_worker s s' i hI h2 h
  | spurious i =>
    simp only [step] at h
    by_cases hc : i < s.n ∧ s.wpc i = .waiting
    · simp only [hc, and_self, ↓reduceIte, Option.some.injEq] at h; subst h
      exact invC_frame s _ rfl h2 (fun j hj => upd_check (by simp) hj) (fun _ h => h) (fun h => h)
    · simp [hc] at h

theorem invC_reachable {n : Nat} {tasks : List Nat} {s : State} (h : Reachable n tasks s) : InvC s := by
  induction h with
  | init => exact invC_init n tasks
  | step hr hs ih => exact invC_step _ _ _ (inv_reachable hr) ih hs

end CSD.Pool
