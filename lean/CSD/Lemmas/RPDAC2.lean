import CSD.Lemmas.RPDAC
import CSD.Lemmas.PFCBasic
import CSD.Lemmas.Order

/-! `extractStringAndCompareDAC` is `strcmp`; the binary search of `locate` is `Spec.locate`. -/
namespace CSD.RPDAC
open CSD CSD.RePair CSD.PFC

/-- Bytes as the symbol numbers the grammar works with. -/
def bytesNat (s : Str) : List Nat := s.map (·.toNat)

theorem toNat_ne {a b : UInt8} (h : a ≠ b) : a.toNat ≠ b.toNat := fun e => h (UInt8.toNat_inj.mp e)

theorem scmp_append_left : ∀ (s x y : Str), scmp (s ++ x) (s ++ y) = scmp x y
  | [], _, _ => rfl
  | a :: s, x, y => by simp [scmp, scmp_append_left s x y]

/-- The flat comparison of a stored string against the C string of the query, started at the
query's first byte (`pre` = what precedes it in the buffer): either the two differ first at some
position and the result is `strcmp`'s, or the stored string is a prefix of the query. -/
theorem cmpList_spec : ∀ (s q : Str) (pre : List Nat), nulFree s → nulFree q →
    (∃ p, cmpList (pre ++ bytesNat q ++ [0]) (bytesNat s) pre.length = some (scmp s q, p) ∧ scmp s q ≠ 0) ∨
    (cmpList (pre ++ bytesNat q ++ [0]) (bytesNat s) pre.length = some (0, pre.length + s.length) ∧
      ∃ t, q = s ++ t)
  | [], q, pre, _, _ => by right; exact ⟨by simp [bytesNat, cmpList], q, rfl⟩
  | a :: as, [], pre, hs, _ => by
    left
    have ha : a ≠ 0 := (nulFree_cons.mp hs).1
    have ha' : a.toNat ≠ 0 := fun e => ha (UInt8.toNat_inj.mp (by simpa using e))
    refine ⟨pre.length, ?_, by simp [scmp]; exact ha'⟩
    simp only [bytesNat, List.map_nil, List.append_nil, List.map_cons, cmpList, cmpTerm]
    rw [List.getElem?_append_right (Nat.le_refl _)]
    simp [scmp, ha']
  | a :: as, b :: bs, pre, hs, hq => by
    have hbuf : (pre ++ bytesNat (b :: bs) ++ [0])[pre.length]? = some b.toNat := by
      simp [bytesNat, List.getElem?_append_right]
    by_cases hab : a = b
    · subst hab
      have hs' := (nulFree_cons.mp hs).2
      have hq' := (nulFree_cons.mp hq).2
      have hshift : pre ++ bytesNat (a :: bs) ++ [0] = (pre ++ [a.toNat]) ++ bytesNat bs ++ [0] := by
        simp [bytesNat]
      have hstep : cmpList (pre ++ bytesNat (a :: bs) ++ [0]) (bytesNat (a :: as)) pre.length =
          cmpList ((pre ++ [a.toNat]) ++ bytesNat bs ++ [0]) (bytesNat as) (pre ++ [a.toNat]).length := by
        have : bytesNat (a :: as) = a.toNat :: bytesNat as := rfl
        rw [this]
        simp only [cmpList, cmpTerm, hbuf]
        simp [hshift]
      rcases cmpList_spec as bs (pre ++ [a.toNat]) hs' hq' with ⟨p, hp, hne⟩ | ⟨hp, t, ht⟩
      · left
        refine ⟨p, ?_, by simpa [scmp] using hne⟩
        rw [hstep, hp]; simp [scmp]
      · right
        refine ⟨?_, t, by rw [ht]; rfl⟩
        rw [hstep, hp]; simp; omega
    · left
      have hne : (a.toNat : Int) - b.toNat ≠ 0 := by
        have := toNat_ne hab; omega
      refine ⟨pre.length, ?_, by simpa [scmp, hab] using hne⟩
      have : bytesNat (a :: as) = a.toNat :: bytesNat as := rfl
      rw [this]
      simp only [cmpList, cmpTerm, hbuf]
      simp [scmp, hab, toNat_ne hab, hne]

/-- **`extractStringAndCompareDAC` computes `strcmp(stored, query)`** for every well-formed grammar and
every symbol sequence that expands to the stored string, with every read inside the query's buffer. -/
theorem compareDAC_eq (g : Grammar) (hwf : g.wf = true) (syms : List Nat)
    (hv : ∀ s ∈ syms, s < g.terminals + g.rules.length) (s q : Str) (hexp : g.expand syms = bytesNat s)
    (hs : nulFree s) (hq : nulFree q) : compareDAC g syms (bytesNat q) = some (scmp s q) := by
  unfold compareDAC
  simp only
  rw [cmpSyms_eq g hwf _ syms hv 0, hexp]
  have h := cmpList_spec s q [] hs hq
  simp only [List.nil_append, List.length_nil, Nat.zero_add] at h
  rcases h with ⟨p, hp, hne⟩ | ⟨hp, t, ht⟩
  · rw [hp]; simp [hne]
  · rw [hp]
    simp only [ne_eq, not_true_eq_false, ↓reduceIte]
    subst ht
    cases t with
    | nil =>
      simp [bytesNat, scmp_self]
    | cons b t =>
      have hlen : ¬ (s.length = (bytesNat (s ++ b :: t)).length) := by simp [bytesNat]
      rw [if_neg hlen]
      have hget : (bytesNat (s ++ b :: t) ++ [0])[s.length]? = some b.toNat := by
        simp [bytesNat, List.getElem?_append_right]
      rw [hget]
      have : scmp s (s ++ b :: t) = scmp [] (b :: t) := by
        have := scmp_append_left s [] (b :: t); simpa using this
      rw [this]; simp [scmp]

/-! ### the binary search -/

theorem locateLoop_spec (S : List Str) (q : Str) (hS : ∀ s ∈ S, nulFree s) (hq : nulFree q) (hsort : SortedLt S)
    (cmp : Nat → Option Int)
    (hcmp : ∀ id (h1 : 1 ≤ id) (h2 : id ≤ S.length), cmp id = some (scmp (S[id - 1]'(by omega)) q)) :
    ∀ (fuel left right : Nat), 1 ≤ left → right ≤ S.length → right + 1 - left < fuel →
      (∀ id (h1 : 1 ≤ id) (h2 : id ≤ S.length), id < left → scmp (S[id - 1]'(by omega)) q < 0) →
      (∀ id (h1 : 1 ≤ id) (h2 : id ≤ S.length), right < id → scmp (S[id - 1]'(by omega)) q > 0) →
      locateLoop cmp fuel left right = some (Spec.locate S q) := by
  intro fuel
  induction fuel with
  | zero => intro left right _ _ hf; omega
  | succ fuel ih =>
    intro left right hl hr hf hlow hhigh
    unfold locateLoop
    by_cases hle : left ≤ right
    · rw [if_pos hle]
      simp only
      have hc1 : 1 ≤ (left + right) / 2 := by omega
      have hc2 : (left + right) / 2 ≤ S.length := by omega
      have hcl : left ≤ (left + right) / 2 := by omega
      have hcr : (left + right) / 2 ≤ right := by omega
      rw [hcmp _ hc1 hc2]
      simp only
      by_cases hpos : scmp (S[(left + right) / 2 - 1]'(by omega)) q > 0
      · rw [if_pos hpos]
        apply ih left ((left + right) / 2 - 1) hl (by omega) (by omega) hlow
        intro id h1 h2 hgt
        by_cases e : id = (left + right) / 2
        · subst e; exact hpos
        · have hlt := hsort.getElem_lt (i := (left + right) / 2 - 1) (j := id - 1) (by omega) (by omega)
          have h3 : scmp q (S[(left + right) / 2 - 1]'(by omega)) < 0 := by
            rw [scmp_antisymm (S[(left + right) / 2 - 1]'(by omega)) q]; omega
          have := scmp_trans_lt h3 hlt
          rw [scmp_antisymm (S[id - 1]'(by omega)) q] at this; omega
      · rw [if_neg hpos]
        by_cases hneg : scmp (S[(left + right) / 2 - 1]'(by omega)) q < 0
        · rw [if_pos hneg]
          apply ih ((left + right) / 2 + 1) right (by omega) hr (by omega) _ hhigh
          intro id h1 h2 hlt'
          by_cases e : id = (left + right) / 2
          · subst e; exact hneg
          · have hlt := hsort.getElem_lt (i := id - 1) (j := (left + right) / 2 - 1) (by omega) (by omega)
            exact scmp_trans_lt hlt hneg
        · rw [if_neg hneg]
          have h0 : scmp (S[(left + right) / 2 - 1]'(by omega)) q = 0 := by omega
          have heq := (scmp_eq_zero (hS _ (List.getElem_mem _)) hq).mp h0
          have := Spec.locate_getElem hsort ((left + right) / 2 - 1) (by omega)
          rw [heq] at this
          rw [this]
          congr 1; omega
    · rw [if_neg hle]
      have hnot : q ∉ S := by
        intro hmem
        obtain ⟨t, ht, hte⟩ := List.mem_iff_getElem.mp hmem
        rcases Nat.lt_or_ge (t + 1) left with h | h
        · have := hlow (t + 1) (by omega) (by omega) h
          simp only [Nat.add_sub_cancel] at this
          rw [hte, scmp_self] at this; omega
        · have := hhigh (t + 1) (by omega) (by omega) (by omega)
          simp only [Nat.add_sub_cancel] at this
          rw [hte, scmp_self] at this; omega
      rw [Spec.locate_not_mem hnot]

end CSD.RPDAC

namespace CSD.RPDAC
open CSD CSD.RePair CSD.PFC

/-- The grammar and the symbol sequences represent the dictionary `S` (whatever Re-Pair chose):
well-formed rules, valid symbols, and the `i`-th sequence expands to the `i`-th string. -/
structure Represents (d : D) (S : List Str) : Prop where
  wf : d.g.wf = true
  len : d.seqs.length = S.length
  valid : ∀ syms ∈ d.seqs, ∀ s ∈ syms, s < d.g.terminals + d.g.rules.length
  exp : ∀ i (h1 : i < d.seqs.length) (h2 : i < S.length), d.g.expand d.seqs[i] = bytesNat S[i]

/-- **`locate` is the specification's `locate`** for every query. -/
theorem locate_represents (d : D) (S : List Str) (r : Represents d S) (hS : ∀ s ∈ S, nulFree s)
    (hsort : SortedLt S) (q : Str) (hq : nulFree q) : locate d (bytesNat q) = some (Spec.locate S q) := by
  unfold locate
  apply locateLoop_spec S q hS hq hsort _ _ (d.seqs.length + 1) 1 d.seqs.length (Nat.le_refl _)
    (by rw [r.len]; exact Nat.le_refl _) (by omega)
  · intro id h1 h2 h3; omega
  · intro id h1 h2 h3; rw [r.len] at h3; omega
  · intro id h1 h2
    have hi : id - 1 < d.seqs.length := by rw [r.len]; omega
    rw [List.getElem?_eq_getElem hi]
    simp only
    exact compareDAC_eq d.g r.wf _ (r.valid _ (List.getElem_mem hi)) _ q (r.exp (id - 1) hi (by omega))
      (hS _ (List.getElem_mem _)) hq

/-- `extract` returns the string with that rank; IDs outside `1 … n` give nothing. -/
theorem extract_represents (d : D) (S : List Str) (r : Represents d S) (id : Nat) :
    extract d id = if h : 1 ≤ id ∧ id ≤ S.length then some (bytesNat (S[id - 1]'(by omega))) else none := by
  unfold extract
  by_cases h : 1 ≤ id ∧ id ≤ S.length
  · rw [dif_pos h, if_neg (by rw [r.len]; omega)]
    have hi : id - 1 < d.seqs.length := by rw [r.len]; omega
    rw [List.getElem?_eq_getElem hi]
    simp only
    rw [r.exp (id - 1) hi (by omega)]
  · rw [dif_neg h, if_pos (by rw [r.len]; omega)]

end CSD.RPDAC
