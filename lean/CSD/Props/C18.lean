/-
  C18 — Codes are prefix-free, Hu-Tucker keeps order, table decoding inverts encoding.

  Proved for every code that is the set of root-to-leaf paths of a binary tree —
  which is what both `Huffman` and `HuTucker` produce. That the implementation's
  tables *are* such path sets (and, for Hu-Tucker, that the leaves are in
  alphabetical order) is checked on every run by rebuilding the tree from the
  exported table in the Lean driver (`codes` stream). The chunked decoding table
  is compared with the answers of the dictionaries that use it (partial).
-/
import CSD.Lemmas.Codes

namespace CSD.Props.C18
open CSD.Codes

/-- Prefix-free: no codeword is a proper prefix of another, and two entries with the
same codeword are the same entry. -/
theorem code_prefix_free (t : Tree) (s₁ s₂ : Nat) (c₁ c₂ ext : List Bool)
    (h1 : (s₁, c₁) ∈ codes t) (h2 : (s₂, c₂) ∈ codes t) (he : c₂ = c₁ ++ ext) : ext = [] ∧ s₁ = s₂ :=
  codes_prefix_free t s₁ s₂ c₁ c₂ ext h1 h2 he

/-- Complete: Kraft's sum is exactly 1 (scaled: Σ 2^(D−ℓ) = 2^D). -/
theorem code_complete (t : Tree) (d : Nat) (h : depth t ≤ d) : kraft t d = 2 ^ d :=
  kraft_eq t d h

/-- Alphabetic (Hu-Tucker) trees keep the order: smaller symbol, smaller codeword. -/
theorem alphabetic_code_order (t : Tree) (ho : ordered t) (s₁ s₂ : Nat) (c₁ c₂ : List Bool)
    (h1 : (s₁, c₁) ∈ codes t) (h2 : (s₂, c₂) ∈ codes t) (hlt : s₁ < s₂) : bitsLt c₁ c₂ = true :=
  ordered_codes_lt t ho s₁ s₂ c₁ c₂ h1 h2 hlt

/-- Decoding inverts encoding for every encodable word, wherever it ends in the
bit stream (whatever bits follow). -/
theorem decoding_inverts_encoding (t : Tree) (w : List Nat) (bits rest : List Bool)
    (h : encode t w = some bits) : decode t w.length (bits ++ rest) = some (w, rest) :=
  decode_encode t w bits rest h

/-- `chunk_table_partial`: the 16-bit chunk table (`DecodingTable`, with its escape
to subtrees for longer codewords) is not modelled; its answers are compared with
the specification through every HTFC/HHTFC/RPHTFC/HASHHF/HASHUFFDAC query.
Non-vacuity: a three-leaf alphabetic tree. -/
example : ordered (.node (.leaf 0) (.node (.leaf 1) (.leaf 2))) ∧
    codes (.node (.leaf 0) (.node (.leaf 1) (.leaf 2))) = [(0, [false]), (1, [true, false]), (2, [true, true])] := by
  refine ⟨⟨trivial, ⟨trivial, trivial, ?_⟩, ?_⟩, rfl⟩ <;> simp [leaves]

end CSD.Props.C18
