/-
  C18 — Codes are prefix-free, Hu-Tucker keeps order, table decoding inverts encoding.

  Proved for every code that is the set of root-to-leaf paths of a binary tree —
  which is what both `Huffman` and `HuTucker` produce. That the implementation's
  tables *are* such path sets (and, for Hu-Tucker, that the leaves are in
  alphabetical order) is checked on every run by rebuilding the tree from the
  exported table in the Lean driver (`codes` stream).

  The chunked decoding table: `processChunk`/`getSubstring` are modelled (`CSD.ChunkDec`) and proved to
  decode exactly what the code tree decodes for every table whose entries are sound (`TableOK`); that the
  tables the builder produces *are* sound is checked on every run for all 2^16 indices of the tables of
  real dictionaries (`chunk-table` stream), where the model is also run on the real table against the real
  routine. The builder itself (which chunks get multi-symbol entries) is not modelled — the theorems hold
  for every choice it could make.
-/
import CSD.Lemmas.Codes
import CSD.Lemmas.ChunkDec
import CSD.Lemmas.ChunkDecAll
import CSD.Lemmas.CodecRoundTrip
import CSD.Generated.Bodies
import CSD.Model.SourceText

namespace CSD.Props.C18
open CSD.Codes

/-- Prefix-free: no codeword is a proper prefix of another, and two entries with the
same codeword are the same entry. -/
theorem code_prefix_free (t : Tree) (s₁ s₂ : Nat) (c₁ c₂ ext : List Bool)
    (h1 : (s₁, c₁) ∈ codes t) (h2 : (s₂, c₂) ∈ codes t) (he : c₂ = c₁ ++ ext) : ext = [] ∧ s₁ = s₂ :=
  codes_prefix_free t s₁ s₂ c₁ c₂ ext h1 h2 he

/-- Complete: Kraft's sum is exactly 1 (scaled: Σ 2^(D−ℓ) = 2^D). -/
theorem code_complete (t : Tree) (d : Nat) (h : depth t ≤ d) : kraft t d = 2 ^ d :=
  kraft_eq t d h

/-- Alphabetic (Hu-Tucker) trees keep the order: smaller symbol, smaller codeword. -/
theorem alphabetic_code_order (t : Tree) (ho : ordered t) (s₁ s₂ : Nat) (c₁ c₂ : List Bool)
    (h1 : (s₁, c₁) ∈ codes t) (h2 : (s₂, c₂) ∈ codes t) (hlt : s₁ < s₂) : bitsLt c₁ c₂ = true :=
  ordered_codes_lt t ho s₁ s₂ c₁ c₂ h1 h2 hlt

/-- Decoding inverts encoding for every encodable word, wherever it ends in the
bit stream (whatever bits follow). -/
theorem decoding_inverts_encoding (t : Tree) (w : List Nat) (bits rest : List Bool)
    (h : encode t w = some bits) : decode t w.length (bits ++ rest) = some (w, rest) :=
  decode_encode t w bits rest h

open CSD.ChunkDec in
/-- **A `processChunk` step decodes what the code tree decodes**: over every table whose entries are sound
for the tree, from every scan state, the symbols the step writes are the next symbols the tree decodes
from the bit stream (padded with zeros to one chunk), and the stream is left right behind their codewords
(an entry that ends a string may swallow padding behind the terminator). Covers the listed-string entries
and the escape to a subtree for codewords longer than the chunk, with the byte-wise refill. -/
theorem chunk_step_decodes (t : Tree) (k : Nat) (table : Nat → Option Entry) (hT : TableOK t k table)
    (c : Scan) (out : List Nat) (flag : Bool) (c' : Scan)
    (h : processChunk table k c = some (out, flag, c')) :
    out ≠ [] ∧ ∃ r, decode t out.length (padTo k (stream c.pend c.bytes)) = some (out, r) ∧
      (r = stream c'.pend c'.bytes ∨ (out.getLast? = some 0 ∧ ∃ d, stream c'.pend c'.bytes = r.drop d)) :=
  processChunk_sound t k table hT c out flag c' h

open CSD.ChunkDec in
/-- **On an encoded text, wherever it starts relative to byte boundaries**: if the stream (pending bits,
then whole bytes) is the encoding of `w` followed by anything, the symbols written are the next symbols
of `w`, and the scan is left at the encoding of the rest of `w`. -/
theorem chunk_step_on_encoded_text (t : Tree) (k : Nat) (table : Nat → Option Entry) (hT : TableOK t k table)
    (c : Scan) (out : List Nat) (flag : Bool) (c' : Scan)
    (h : processChunk table k c = some (out, flag, c'))
    (w : List Nat) (enc rest : List Bool) (henc : encode t w = some enc)
    (hs : padTo k (stream c.pend c.bytes) = enc ++ rest) (hm : out.length ≤ w.length) :
    out = w.take out.length ∧
      (out.getLast? ≠ some 0 →
        ∃ e2, encode t (w.drop out.length) = some e2 ∧ stream c'.pend c'.bytes = e2 ++ rest) :=
  processChunk_on_encoded t k table hT c out flag c' h w enc rest henc hs hm

open CSD.ChunkDec in
/-- **Table decoding inverts encoding, for a whole string, wherever it starts and ends**: if the stream —
pending bits first (any bit offset inside a byte), then bytes — holds the encoding of `w`, a string with
no terminator before its last symbol, then repeating `processChunk` until `|w|` symbols are written
writes exactly `w`, whatever follows `w` in the stream (the next string, padding, nothing) and although
the last step may decode beyond the end of `w`. Codewords longer than the chunk go through the subtrees. -/
theorem chunked_decoding_inverts_encoding (t : Tree) (k : Nat) (table : Nat → Option Entry) (hT : TableOK t k table)
    (fuel : Nat) (pend : List Bool) (bytes : List Nat) (w : List Nat) (enc rest : List Bool) (o : List Nat)
    (henc : encode t w = some enc) (hnz : ∀ i, i + 1 < w.length → w[i]? ≠ some 0)
    (hs : padTo k (stream pend bytes) = enc ++ rest)
    (h : decodeAll table k fuel pend bytes w.length = some o) : o.take w.length = w :=
  decodeAll_spec t k table hT fuel pend bytes w enc rest o henc hnz hs h

open CSD.StatCoder in
/-- **`StatCoder::encodeSymbol` appends exactly the codeword** (model with the 32-bit shifts and the byte
truncation of the C++): whatever the bit offset inside the byte under construction, the bit stream written
afterwards is the bit stream written before followed by the `bits ≤ 32` bits of the codeword, most
significant first. -/
theorem encodeSymbol_appends_codeword (cw bits cur off : Nat) (done : List Nat) (hb : bits ≤ 32) (ho : off < 8)
    (hc : Clean cur off) :
    ∃ bytes cur' off', encodeSymbol cw bits cur off = some (bytes, cur', off') ∧ off' < 8 ∧ Clean cur' off' ∧
      written (done ++ bytes) cur' off' = written done cur off ++ cwb cw bits :=
  encodeSymbol_spec cw bits cur off done hb ho hc

open CSD.StatCoder CSD.ChunkDec in
/-- **Encode with `encodeString`, decode with the chunk table: the string comes back.** For every code
tree, every codeword table that lists its paths, every sound chunk table and every string whose only
terminator is its last symbol. -/
theorem encodeString_then_table_decoding (t : Tree) (k : Nat) (table : Nat → Option Entry) (hT : TableOK t k table)
    (cwOf : Nat → Nat × Nat) (hb : ∀ s, (cwOf s).2 ≤ 32) (w : List Nat) (hm : TableMatches t cwOf w)
    (hnz : ∀ i, i + 1 < w.length → w[i]? ≠ some 0) (bytes : List Nat)
    (he : encodeString cwOf w 0 0 [] = some bytes) (fuel : Nat) (o : List Nat)
    (hd : decodeAll table k fuel [] bytes w.length = some o) : o.take w.length = w :=
  encodeString_then_decodeAll t k table hT cwOf hb w hm hnz bytes he fuel o hd

/-- Non-vacuity: the 3-bit codeword 101 written at offset 6 of a byte holding 11 completes the byte
0b11_000000 ||| 0b10 = 194 and leaves one bit (1) in the next byte. -/
example : StatCoder.encodeSymbol 5 3 192 6 = some ([194], 128, 1) := by decide

open CSD.ChunkDec in
/-- **The step never fails** — no table index without an entry, no byte read past the bucket — when the
table covers all `2^k` indices and the stream starts with a whole codeword. -/
theorem chunk_step_total (t : Tree) (k : Nat) (table : Nat → Option Entry) (hT : TableOK t k table)
    (hcov : ∀ i, i < 2 ^ k → (table i).isSome) (hd : depth t ≤ 64) (c : Scan)
    (hcw : (decodeSym t (padTo k (stream c.pend c.bytes))).isSome) :
    (processChunk table k c).isSome :=
  processChunk_total t k table hT hcov hd c hcw

open CSD.ChunkDec in
/-- **The end-of-string flag**: `true` means a terminator was written; `strLen` stops right behind it and
the symbols behind it are counted as extracted in advance. -/
theorem chunk_flag_marks_terminator (t : Tree) (k : Nat) (table : Nat → Option Entry) (hT : TableOK t k table)
    (c : Scan) (out : List Nat) (c' : Scan) (h : processChunk table k c = some (out, true, c')) :
    ∃ e, c'.strLen = c.strLen + e ∧ 1 ≤ e ∧ e ≤ out.length ∧ out[e - 1]? = some 0 ∧
      (c'.advanced = out.length - e ∨ (out.length = 1 ∧ c'.advanced = c.advanced)) :=
  processChunk_flag_true t k table hT c out c' h

/-- Non-vacuity: the code {0 ↦ 0, 1 ↦ 10, 2 ↦ 11} with 2-bit chunks: index 01 lists the symbol 0 (1 bit),
index 10 the symbol 1; the table is sound and a step over the byte 0b0100_0000 writes symbol 0. -/
example :
    let t : Tree := .node (.leaf 0) (.node (.leaf 1) (.leaf 2))
    let table : Nat → Option ChunkDec.Entry := fun i =>
      if i = 0 then some (.str [0, 0] 2 true) else if i = 1 then some (.str [0] 1 true)
      else if i = 2 then some (.str [1] 2 false) else if i = 3 then some (.str [2] 2 false) else none
    (∀ i, i < 4 → ((table i).map (ChunkDec.entryOK t 2 i)) = some true) ∧
    (ChunkDec.processChunk table 2 { pend := [], bytes := [64], strLen := 0, advanced := 0, extracted := 5 }).map (·.1) = some [0] := by
  refine ⟨?_, by decide⟩
  intro i hi
  have : i = 0 ∨ i = 1 ∨ i = 2 ∨ i = 3 := by omega
  rcases this with rfl | rfl | rfl | rfl <;> decide

/-- Non-vacuity of the code-tree theorems: a three-leaf alphabetic tree. -/
example : ordered (.node (.leaf 0) (.node (.leaf 1) (.leaf 2))) ∧
    codes (.node (.leaf 0) (.node (.leaf 1) (.leaf 2))) = [(0, [false]), (1, [true, false]), (2, [true, true])] := by
  refine ⟨⟨trivial, ⟨trivial, trivial, ?_⟩, ?_⟩, rfl⟩ <;> simp [leaves]

/-- The models this file's theorems are about were written against the current text of the C++
functions they mirror (`CSD/Generated/Bodies.lean` is re-extracted from the sources on every run,
`CSD/Model/SourceText.lean` is what was reviewed): an edit of one of these functions breaks this
obligation even if no generated input tells the behaviours apart. -/
theorem models_match_source_text :
    Generated.body_DecodingTable_getSubstring = SourceText.body_DecodingTable_getSubstring ∧
    Generated.body_DecodingTable_processChunk = SourceText.body_DecodingTable_processChunk ∧
    Generated.body_StatCoder_encodeSymbol = SourceText.body_StatCoder_encodeSymbol ∧
    Generated.body_StatCoder_encodeString = SourceText.body_StatCoder_encodeString := ⟨rfl, rfl, rfl, rfl⟩

end CSD.Props.C18
