/-
  C12 — Tuning parameters change space/time only, never answers.
-/
import CSD.Lemmas.HashBlocks
import CSD.Generated.Bodies
import CSD.Model.SourceText
import CSD.Lemmas.PFCMeta
import CSD.Lemmas.FM17
import CSD.Lemmas.RPFC9
import CSD.Lemmas.RPDAC2
import CSD.Lemmas.PFCLocate4
import CSD.Lemmas.RPFC10
import CSD.Lemmas.RPDACIter
import CSD.Lemmas.FM19

namespace CSD.Props.C12
open CSD CSD.PFC

/-- Two PFC dictionaries built from the same input with *any* two bucket sizes
answer every locate query identically. -/
theorem pfc_locate_param_independent (b₁ b₂ : Nat) (S : List Str) (hv : validDict S = true)
    (q : Str) (hq : nulFree q) :
    PFC.locate (PFC.build b₁ S) q = PFC.locate (PFC.build b₂ S) q := by
  obtain ⟨hne, hn, hs, _⟩ := validDict_facts hv
  rw [locate_build b₁ S q hne hn hq hs, locate_build b₂ S q hne hn hq hs]

/-- …and every extract query, for every ID whatsoever. -/
theorem pfc_extract_param_independent (b₁ b₂ : Nat) (S : List Str) (hv : validDict S = true) (i : Nat) :
    PFC.extract (PFC.build b₁ S) i = PFC.extract (PFC.build b₂ S) i := by
  obtain ⟨_, hn, _, _⟩ := validDict_facts hv
  by_cases h : 1 ≤ i ∧ i ≤ S.length
  · rw [extract_build b₁ S hn i h.1 h.2, extract_build b₂ S hn i h.1 h.2]
  · have hb : i = 0 ∨ i > S.length := by omega
    unfold PFC.extract
    simp only [build_elements]
    have : ¬ (i > 0 ∧ i ≤ S.length) := by omega
    simp [this]

/-- A bucket size below 2 is replaced by 2: the constructor produces the very same
object (same text, same index, same counters). -/
theorem pfc_bucketsize_clamped (b : Nat) (hb : b < 2) (S : List Str) :
    PFC.build b S = PFC.build 2 S := by
  unfold PFC.build
  simp [hb]

example : PFC.build 0 [[0x61], [0x62]] = PFC.build 2 [[0x61], [0x62]] := pfc_bucketsize_clamped 0 (by decide) _

/-- Hash table size (the `overhead` parameter) does not change what the dictionary *is*: for any two
requested sizes that hold the strings (and were accepted by `nearest_prime`), the same strings are
members, and `extract ∘ locate` is the identity on them in both — only the ID assignment differs, as
the property allows for hash kinds. -/
theorem hash_overhead_independent (t1 t2 : Nat) (S : List Str) (hnd : S.Nodup)
    (h1 : S.length ≤ t1) (h2 : S.length ≤ t2)
    (a1 : Hash.accepted (Hash.build t1 S).tsize = true) (a2 : Hash.accepted (Hash.build t2 S).tsize = true)
    (q : Str) :
    (Hash.locate (Hash.build t1 S) q = 0 ↔ Hash.locate (Hash.build t2 S) q = 0) ∧
    (q ∈ S → Hash.extract (Hash.build t1 S) (Hash.locate (Hash.build t1 S) q) =
             Hash.extract (Hash.build t2 S) (Hash.locate (Hash.build t2 S) q)) := by
  have g1 := Hash.goodDict_build t1 S hnd h1 a1
  have g2 := Hash.goodDict_build t2 S hnd h2 a2
  constructor
  · by_cases hq : q ∈ S
    · obtain ⟨k, hk⟩ := List.mem_iff_getElem?.mp hq
      have r1 := (Hash.locate_range g1 k q hk).1
      have r2 := (Hash.locate_range g2 k q hk).1
      constructor <;> intro h <;> omega
    · rw [Hash.locate_absent g1 q hq, Hash.locate_absent g2 q hq]
  · intro hq
    obtain ⟨k, hk⟩ := List.mem_iff_getElem?.mp hq
    rw [Hash.extract_locate g1 k q hk, Hash.extract_locate g2 k q hk]

/-- Cut size (HASHRPDACBlocks) does not change membership nor the round trip either. -/
theorem blocks_cut_size_independent (c1 c2 : Nat) (f1 f2 : Nat → Nat) (S : List Str)
    (ok1 : Hash.PartsOK c1 f1 S) (ok2 : Hash.PartsOK c2 f2 S) (q : Str) :
    (Hash.locateBlocks (Hash.buildBlocks c1 f1 S) q = 0 ↔ Hash.locateBlocks (Hash.buildBlocks c2 f2 S) q = 0) ∧
    (q ∈ S → Hash.extractBlocks (Hash.buildBlocks c1 f1 S) (Hash.locateBlocks (Hash.buildBlocks c1 f1 S) q) =
             Hash.extractBlocks (Hash.buildBlocks c2 f2 S) (Hash.locateBlocks (Hash.buildBlocks c2 f2 S) q)) := by
  constructor
  · by_cases hq : q ∈ S
    · have r1 := (Hash.blocks_locate_member ok1 q hq).1
      have r2 := (Hash.blocks_locate_member ok2 q hq).1
      constructor <;> intro h <;> omega
    · rw [Hash.blocks_locate_absent ok1 q hq, Hash.blocks_locate_absent ok2 q hq]
  · intro hq
    rw [(Hash.blocks_locate_member ok1 q hq).2.2, (Hash.blocks_locate_member ok2 q hq).2.2]

/-- The models this file's theorems are about were written against the current text of the C++
functions they mirror (`CSD/Generated/Bodies.lean` is re-extracted from the sources on every run,
`CSD/Model/SourceText.lean` is what was reviewed): an edit of one of these functions breaks this
obligation even if no generated input tells the behaviours apart. -/
theorem models_match_source_text :
    Generated.body_PFC_ctor = SourceText.body_PFC_ctor ∧
    Generated.body_PFC_locate = SourceText.body_PFC_locate ∧
    Generated.body_PFC_locateBucket = SourceText.body_PFC_locateBucket ∧
    Generated.body_PFC_getHeader = SourceText.body_PFC_getHeader ∧
    Generated.body_PFC_decodeNextString = SourceText.body_PFC_decodeNextString ∧
    Generated.body_PFC_extract = SourceText.body_PFC_extract := ⟨rfl, rfl, rfl, rfl, rfl, rfl⟩


/-! ### RPFC and FMINDEX -/

/-- Two RPFC objects that store the same dictionary — whatever their bucket sizes and whatever rules Re-Pair
chose for each — answer `locate` identically. -/
theorem rpfc_locate_independent_of_parameters {S : List Str} {d₁ d₂ : RPFC.D} (h₁ : RPFC.Stores S d₁) (h₂ : RPFC.Stores S d₂)
    (hv : validDict S = true) (q : Str) (hq : PFC.nulFree q) : RPFC.locate d₁ q = RPFC.locate d₂ q := by
  obtain ⟨hne, hn, hs, _⟩ := PFC.validDict_facts hv
  rw [RPFC.locate_stores h₁ q hne hn hq hs, RPFC.locate_stores h₂ q hne hn hq hs]

theorem rpfc_extract_independent_of_parameters {S : List Str} {d₁ d₂ : RPFC.D} (h₁ : RPFC.Stores S d₁) (h₂ : RPFC.Stores S d₂)
    (i : Nat) (h1 : 1 ≤ i) (h2 : i ≤ S.length) : RPFC.extract d₁ i = RPFC.extract d₂ i := by
  rw [RPFC.extract_stores h₁ i h1 h2, RPFC.extract_stores h₂ i h1 h2]

/-- Two FM-index dictionaries of the same strings — whatever suffix arrays, bitmap kinds (abstracted) and BWT
sampling steps they were built with — answer `locate`, `locatePrefix` and (both with sampling) `locateSubstr`
identically. -/
theorem fmindex_answers_independent_of_parameters {S : List Str} {L₁ L₂ : List FM.Row} {d₁ d₂ : FM.Dict}
    (hv : validDict S = true) (h₁ : FM.DictOK S L₁ d₁) (h₂ : FM.DictOK S L₂ d₂)
    (s₁ : FM.BuiltS (FM.mkText S) L₁ d₁.ix) (s₂ : FM.BuiltS (FM.mkText S) L₂ d₂.ix)
    (q : Str) (hq : q.all validByte = true) (hne : q ≠ []) :
    d₁.locate q = d₂.locate q ∧ d₁.locateSubstr q = d₂.locateSubstr q := by
  refine ⟨?_, ?_⟩
  · rw [FM.locate_spec hv h₁ q hq, FM.locate_spec hv h₂ q hq]
  · rw [FM.locateSubstr_spec hv h₁ s₁ q hq hne, FM.locateSubstr_spec hv h₂ s₂ q hq hne]


/-- **All four modelled order-preserving kinds agree on every ID**: for a valid dictionary `S` and any query over
`0x02 .. 0xFE`, the plain front-coded dictionary (any bucket size), an RPFC object that stores `S` (any bucket
size, any grammar), an RPDAC object that represents `S` (any grammar) and an FM-index dictionary of `S` (any
suffix array, any sampling) return the same ID — the rank of the member, or 0. -/
theorem ordered_kinds_agree {S : List Str} (hv : validDict S = true) (b : Nat)
    {dR : RPFC.D} (hR : RPFC.Stores S dR) {dD : RPDAC.D} (hD : RPDAC.Represents dD S)
    {L : List FM.Row} {dF : FM.Dict} (hF : FM.DictOK S L dF) (q : Str) (hq : q.all validByte = true) :
    PFC.locate (PFC.build b S) q = some (Spec.locate S q) ∧ RPFC.locate dR q = some (Spec.locate S q) ∧
    RPDAC.locate dD (RPDAC.bytesNat q) = some (Spec.locate S q) ∧ dF.locate q = some (Spec.locate S q) := by
  obtain ⟨hne, hn, hs, _⟩ := PFC.validDict_facts hv
  have hqn : PFC.nulFree q := FM.nulFree_of_all hq
  exact ⟨PFC.locate_build b S q hne hn hqn hs, RPFC.locate_stores hR q hne hn hqn hs,
    RPDAC.locate_represents dD S hD hn hs q hqn, FM.locate_spec hv hF q hq⟩

/-- **The strings of a prefix search do not depend on the representation either**: PFC under any two bucket
sizes, RPFC over any storing grammar and bucket size, and RPDAC over any representing grammar all yield the
same strings for `extractPrefix` — the members that start with the pattern, in order (NULL, or for RPDAC an
empty iterator, when there is none). -/
theorem ordered_kinds_agree_on_prefix_strings {S : List Str} (hv : validDict S = true) (b₁ b₂ : Nat)
    {dR : RPFC.D} (hR : RPFC.Stores S dR) {dD : RPDAC.D} (hD : RPDAC.Represents dD S) (hlen : S.length < 2 ^ 64)
    (q : Str) (hq : PFC.nulFree q) (hne : q ≠ []) :
    PFC.extractPrefix (PFC.build b₁ S) q = PFC.extractPrefix (PFC.build b₂ S) q ∧
    RPFC.extractPrefix dR q = PFC.extractPrefix (PFC.build b₁ S) q ∧
    RPDAC.extractPrefix dD (RPDAC.bytesNat q) = some ((S.filter (isPrefix q)).map RPDAC.bytesNat) ∧
    PFC.extractPrefix (PFC.build b₁ S) q = some (if S.filter (isPrefix q) = [] then none else some (S.filter (isPrefix q))) := by
  obtain ⟨hne', hn, hs, _⟩ := PFC.validDict_facts hv
  have h1 := PFC.extractPrefix_build b₁ S q hne' hn hs hq
  have h2 := PFC.extractPrefix_build b₂ S q hne' hn hs hq
  have h3 := RPFC.extractPrefix_stores hR hne' hn hs q hq
  exact ⟨by rw [h1, h2], by rw [h3, h1], RPDAC.extractPrefix_represents dD S hD hn hs hlen q hq hne, h1⟩

/-- **Table scans do not depend on the parameters**: PFC under any bucket size and RPFC over any storing
grammar and bucket size scan to the same list, the sorted input. -/
theorem table_scans_agree {S : List Str} (hv : validDict S = true) (b : Nat) {dR : RPFC.D} (hR : RPFC.Stores S dR) :
    PFC.table (PFC.build b S) = some S ∧ RPFC.extractTable dR = some S := by
  obtain ⟨hne', hn, _, _⟩ := PFC.validDict_facts hv
  exact ⟨PFC.table_build b S hne' hn, RPFC.extractTable_stores hR hne'⟩

/-- **The strings FMINDEX returns do not depend on its parameters**: two dictionaries over the same `S`, built
from any two suffix arrays with any two sampling steps > 0 (and any `maxlength` that bounds the members), return
the same strings for `extractPrefix`, `extractSubstr` and `extractTable`. -/
theorem fmindex_strings_independent_of_parameters {S : List Str} {L₁ L₂ : List FM.Row} {d₁ d₂ : FM.Dict}
    (hv : validDict S = true) (h₁ : FM.DictOK S L₁ d₁) (h₂ : FM.DictOK S L₂ d₂)
    (s₁ : FM.BuiltS (FM.mkText S) L₁ d₁.ix) (s₂ : FM.BuiltS (FM.mkText S) L₂ d₂.ix)
    (m₁ : ∀ s ∈ S, s.length < d₁.maxlength) (m₂ : ∀ s ∈ S, s.length < d₂.maxlength)
    (p : Str) (hp : p.all validByte = true) (hne : p ≠ []) :
    d₁.extractPrefix p = d₂.extractPrefix p ∧ d₁.extractSubstr p = d₂.extractSubstr p ∧
    d₁.extractTable = d₂.extractTable := by
  refine ⟨?_, ?_, ?_⟩
  · rw [FM.extractPrefix_spec hv h₁ m₁ p hp hne, FM.extractPrefix_spec hv h₂ m₂ p hp hne]
  · rw [FM.extractSubstr_spec hv h₁ s₁ m₁ p hp hne, FM.extractSubstr_spec hv h₂ s₂ m₂ p hp hne]
  · rw [FM.extractTable_spec hv h₁ m₁, FM.extractTable_spec hv h₂ m₂]

end CSD.Props.C12
