/-
  C12 — Tuning parameters change space/time only, never answers.
-/
import CSD.Generated.Bodies
import CSD.Model.SourceText
import CSD.Lemmas.PFCMeta

namespace CSD.Props.C12
open CSD CSD.PFC

/-- Two PFC dictionaries built from the same input with *any* two bucket sizes
answer every locate query identically. -/
theorem pfc_locate_param_independent (b₁ b₂ : Nat) (S : List Str) (hv : validDict S = true)
    (q : Str) (hq : nulFree q) :
    PFC.locate (PFC.build b₁ S) q = PFC.locate (PFC.build b₂ S) q := by
  obtain ⟨hne, hn, hs, _⟩ := validDict_facts hv
  rw [locate_build b₁ S q hne hn hq hs, locate_build b₂ S q hne hn hq hs]

/-- …and every extract query, for every ID whatsoever. -/
theorem pfc_extract_param_independent (b₁ b₂ : Nat) (S : List Str) (hv : validDict S = true) (i : Nat) :
    PFC.extract (PFC.build b₁ S) i = PFC.extract (PFC.build b₂ S) i := by
  obtain ⟨_, hn, _, _⟩ := validDict_facts hv
  by_cases h : 1 ≤ i ∧ i ≤ S.length
  · rw [extract_build b₁ S hn i h.1 h.2, extract_build b₂ S hn i h.1 h.2]
  · have hb : i = 0 ∨ i > S.length := by omega
    unfold PFC.extract
    simp only [build_elements]
    have : ¬ (i > 0 ∧ i ≤ S.length) := by omega
    simp [this]

/-- A bucket size below 2 is replaced by 2: the constructor produces the very same
object (same text, same index, same counters). -/
theorem pfc_bucketsize_clamped (b : Nat) (hb : b < 2) (S : List Str) :
    PFC.build b S = PFC.build 2 S := by
  unfold PFC.build
  simp [hb]

example : PFC.build 0 [[0x61], [0x62]] = PFC.build 2 [[0x61], [0x62]] := pfc_bucketsize_clamped 0 (by decide) _

/-- The models this file's theorems are about were written against the current text of the C++
functions they mirror (`CSD/Generated/Bodies.lean` is re-extracted from the sources on every run,
`CSD/Model/SourceText.lean` is what was reviewed): an edit of one of these functions breaks this
obligation even if no generated input tells the behaviours apart. -/
theorem models_match_source_text :
    Generated.body_PFC_ctor = SourceText.body_PFC_ctor ∧
    Generated.body_PFC_locate = SourceText.body_PFC_locate ∧
    Generated.body_PFC_locateBucket = SourceText.body_PFC_locateBucket ∧
    Generated.body_PFC_getHeader = SourceText.body_PFC_getHeader ∧
    Generated.body_PFC_decodeNextString = SourceText.body_PFC_decodeNextString ∧
    Generated.body_PFC_extract = SourceText.body_PFC_extract := ⟨rfl, rfl, rfl, rfl, rfl, rfl⟩

end CSD.Props.C12
