/-
  C19 — Bundled succinct structures agree with their plain definitions.

  Proved: `BitSequenceRG::rank1` (counter per super-block + word popcounts + masked
  popcount) equals the plain count of ones, for every bit vector, every sampling
  factor and every position. `rank0`, `select`, `BitSequenceRRR`, the wavelet trees
  and the other variants are compared with the plain definitions by the
  correspondence stream (partial).
-/
import CSD.Lemmas.RGSelect2
import CSD.Lemmas.RGSelect0b
import CSD.Lemmas.RGImage
import CSD.Generated.Bodies
import CSD.Model.SourceText
import CSD.Lemmas.RG

namespace CSD.Props.C19
open CSD.RG

/-- `rank1(i)` is the number of ones in positions `0..i`. -/
theorem rg_rank1_exact (words : List Nat) (factor i : Nat) (hf : 0 < factor)
    (hi : (i + 1) / 32 < words.length) : rank1 words factor i = ones words (i + 1) :=
  rank1_eq_ones words factor i hf hi

/-- The super-block counters are the plain counts at the block boundaries. -/
theorem rg_superblock_counters (words : List Nat) (factor j : Nat) :
    Rs words factor j = ones words (32 * (j * factor)) :=
  Rs_eq words factor j

/-- `rank0(i) = i + 1 − rank1(i)` in the code, hence exact as well. -/
theorem rg_rank0_exact (words : List Nat) (factor i : Nat) (hf : 0 < factor)
    (hi : (i + 1) / 32 < words.length) : (i + 1) - rank1 words factor i = (i + 1) - ones words (i + 1) := by
  rw [rank1_eq_ones words factor i hf hi]

example : rank1 [0b1011, 0] 1 3 = 3 := by decide

/-- **`BitSequenceRG::select1` is exact** (exact model: binary search over the super-block counters,
sequential search over whole words by popcount, up to three byte skips by `popcount8`, then bit by bit):
for every word array, every sampling factor ≥ 1 and every `1 ≤ x ≤ ones`, the answer `p` is the position
of the `x`-th one — bit `p` is set and exactly `x - 1` ones precede it — with every array read in bounds
(the result is `some`). Together with `rank1_exact`: `rank1 (select1 x) = x`. -/
theorem rg_select1_exact (words : List Nat) (factor n total x : Nat) (hf : 0 < factor) (hx1 : 1 ≤ x) (hx2 : x ≤ total)
    (htot : total ≤ RG.ones words (32 * words.length)) (hint : words.length ≤ n / 32 + 1) :
    ∃ p, RG.select1 words factor n total x = some p ∧ (RG.allBits words)[p]? = some true ∧ RG.ones words p = x - 1 :=
  RG.select1_spec words factor n total x hf hx1 hx2 htot hint

/-- Out-of-range arguments: `select1(0)` and `select1(x > ones)` answer `(uint)-1` without touching the arrays. -/
theorem rg_select1_out_of_range (words : List Nat) (factor n total x : Nat) (h : x = 0 ∨ x > total) :
    RG.select1 words factor n total x = some (2 ^ 32 - 1) := by
  unfold RG.select1
  rcases h with h | h
  · subst h
    by_cases h0 : 0 > total
    · rw [if_pos h0]
    · rw [if_neg h0, if_pos rfl]
  · rw [if_pos h]

/-- **`access` of BitSequenceRG is the bit of the plain vector**, for every position inside the array. -/
theorem rg_access_exact (words : List Nat) (i : Nat) (h : i < 32 * words.length) :
    (RG.allBits words)[i]? = some (RG.access words i) := by
  have hk : i / 32 < words.length := by omega
  have e : i = 32 * (i / 32) + i % 32 := by omega
  conv => lhs; rw [e]
  rw [RG.allBits_get words (i / 32) (i % 32) hk (by omega)]
  unfold RG.access RG.W
  rw [List.getD_eq_getElem?_getD, List.getElem?_eq_getElem hk]
  rfl

/-- **A BitSequenceRG survives save/load unchanged** (byte-level models of `save`, `load` and of the object
the constructor builds with `BuildRank`): for every bit vector of fewer than `2^32 − 64` bits and every
sampling factor ≥ 1, `load` applied to the saved bytes (followed by anything) returns the same words and the
same counters and consumes exactly the image — so every answer is the same after save/load. -/
theorem rg_image_reloads (words : List Nat) (n factor : Nat) (hn : n + 64 < 2 ^ 32) (hf : 0 < factor) (hf2 : factor < 2 ^ 64)
    (hw : ∀ w ∈ words, w < 2 ^ 32) (rest : List UInt8) :
    RG.loadImg (RG.saveImg (RG.build words n factor) ++ rest) = some (RG.build words n factor, rest) :=
  RG.build_reloads words n factor hn hf hf2 hw rest

/-- Non-vacuity: the 40-bit vector with words 5, 11 at factor 1 — two data words, two counters (0 and 2). -/
example : (RG.build [5, 11] 40 1).data = [5, 11] ∧ (RG.build [5, 11] 40 1).Rs = [0, 2] := by decide

/-- **`select0` of BitSequenceRG is exact** (the model mirrors the C++ routine; zeros before super-block
`mid` are `mid·factor·W − Rs[mid]`): for `1 ≤ x ≤ n − ones` the answer `p < n` is the position of the `x`-th
zero — bit `p` is clear and exactly `x − 1` zeros precede it — every array read in bounds, and the final
`left > n` clamp is never taken. The padding bits of the last word count as zeros in the routine; the
theorem shows they are never reached. -/
theorem rg_select0_exact (words : List Nat) (factor n total x : Nat) (hf : 0 < factor) (hx1 : 1 ≤ x) (hx2 : x ≤ n - total)
    (htot : n - total ≤ RG.zeros words n) (hlen : words.length = n / 32 + 1) :
    ∃ p, RG.select0 words factor n total x = some p ∧ p < n ∧ (RG.allBits words)[p]? = some false ∧
      RG.zeros words p = x - 1 :=
  RG.select0_spec words factor n total x hf hx1 hx2 htot hlen

/-- Out of range: `select0(x > n − ones)` answers `(uint)-1`, `select0(0)` answers 0, without touching the arrays. -/
theorem rg_select0_out_of_range (words : List Nat) (factor n total x : Nat) :
    (x > n - total → RG.select0 words factor n total x = some (2 ^ 32 - 1)) ∧
    (x = 0 → RG.select0 words factor n total x = some 0 ∨ RG.select0 words factor n total x = some (2 ^ 32 - 1)) := by
  refine ⟨fun h => by unfold RG.select0; rw [if_pos h], fun h => ?_⟩
  subst h
  unfold RG.select0
  by_cases h0 : 0 > n - total
  · right; rw [if_pos h0]
  · left; rw [if_neg h0, if_pos rfl]

/-- Non-vacuity: the second zero of the 40-bit vector whose first word is 5 (bits 1 0 1 0 …) sits at position 3. -/
example : RG.select0 [5, 11] 1 40 5 2 = some 3 := by decide
example : RG.zeros [5, 11] 40 = 35 := by decide

/-- Non-vacuity: the third one of the 40-bit vector 0b…1011 0000…0101 sits at position 32. -/
example : RG.select1 [5, 11] 1 40 5 3 = some 32 := by decide

/-- The models this file's theorems are about were written against the current text of the C++
functions they mirror (`CSD/Generated/Bodies.lean` is re-extracted from the sources on every run,
`CSD/Model/SourceText.lean` is what was reviewed): an edit of one of these functions breaks this
obligation even if no generated input tells the behaviours apart. -/
theorem models_match_source_text :
    Generated.body_RG_rank1 = SourceText.body_RG_rank1 ∧
    Generated.body_RG_select1 = SourceText.body_RG_select1 ∧
    Generated.body_RG_select0 = SourceText.body_RG_select0 ∧
    Generated.body_RG_save = SourceText.body_RG_save ∧
    Generated.body_RG_load = SourceText.body_RG_load ∧
    Generated.body_RG_BuildRank = SourceText.body_RG_BuildRank ∧
    Generated.body_RG_BuildRankSub = SourceText.body_RG_BuildRankSub := ⟨rfl, rfl, rfl, rfl, rfl, rfl, rfl⟩

end CSD.Props.C19
