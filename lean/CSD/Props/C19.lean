/-
  C19 — Bundled succinct structures agree with their plain definitions.

  Proved: `BitSequenceRG::rank1` (counter per super-block + word popcounts + masked
  popcount) equals the plain count of ones, for every bit vector, every sampling
  factor and every position. `rank0`, `select`, `BitSequenceRRR`, the wavelet trees
  and the other variants are compared with the plain definitions by the
  correspondence stream (partial).
-/
import CSD.Generated.Bodies
import CSD.Model.SourceText
import CSD.Lemmas.RG

namespace CSD.Props.C19
open CSD.RG

/-- `rank1(i)` is the number of ones in positions `0..i`. -/
theorem rg_rank1_exact (words : List Nat) (factor i : Nat) (hf : 0 < factor)
    (hi : (i + 1) / 32 < words.length) : rank1 words factor i = ones words (i + 1) :=
  rank1_eq_ones words factor i hf hi

/-- The super-block counters are the plain counts at the block boundaries. -/
theorem rg_superblock_counters (words : List Nat) (factor j : Nat) :
    Rs words factor j = ones words (32 * (j * factor)) :=
  Rs_eq words factor j

/-- `rank0(i) = i + 1 − rank1(i)` in the code, hence exact as well. -/
theorem rg_rank0_exact (words : List Nat) (factor i : Nat) (hf : 0 < factor)
    (hi : (i + 1) / 32 < words.length) : (i + 1) - rank1 words factor i = (i + 1) - ones words (i + 1) := by
  rw [rank1_eq_ones words factor i hf hi]

example : rank1 [0b1011, 0] 1 3 = 3 := by decide

/-- The models this file's theorems are about were written against the current text of the C++
functions they mirror (`CSD/Generated/Bodies.lean` is re-extracted from the sources on every run,
`CSD/Model/SourceText.lean` is what was reviewed): an edit of one of these functions breaks this
obligation even if no generated input tells the behaviours apart. -/
theorem models_match_source_text :
    Generated.body_RG_rank1 = SourceText.body_RG_rank1 := rfl

end CSD.Props.C19
