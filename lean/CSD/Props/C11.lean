/-
  C11 — The parallel build and the pool are free of data races.

  What a model can carry is the lock discipline; the accesses of the real code
  are monitored by ThreadSanitizer on the correspondence runs (partial).
-/
import CSD.Lemmas.PoolThms

namespace CSD.Props.C11
open CSD.Pool

/-- Mutual exclusion: `shared_mutex` is owned by at most one thread, and exactly by
the threads whose program counter is inside a critical section. -/
theorem mutex_exclusive {n : Nat} {tasks : List Nat} {s : State} (h : Reachable n tasks s)
    (i j : Nat) (hi : i < s.n ∧ (s.wpc i).holding = true) (hj : j < s.n ∧ (s.wpc j).holding = true) :
    i = j ∧ s.prod.holding = false := by
  have hI := (inv2_reachable h).1
  have h1 := (hI.mutexW i).mpr hi
  have h2 := (hI.mutexW j).mpr hj
  rw [h1] at h2
  refine ⟨by cases h2; rfl, ?_⟩
  cases hp : s.prod.holding
  · rfl
  · have := hI.mutexP.mpr hp; rw [h1] at this; cases this

/-- The queue — the state shared between the producer and the workers — is
changed only by the thread that owns `shared_mutex`. -/
theorem queue_changes_under_mutex {n : Nat} {tasks : List Nat} {s s' : State} {t : Tid}
    (h : Reachable n tasks s) (hs : step s t = some s') (hch : s'.queue ≠ s.queue) :
    s.mutex = some t :=
  Pool.queue_changes_under_mutex (inv2_reachable h).1 hs hch

example : Reachable 1 [3] (init 1 [3]) := Reachable.init

end CSD.Props.C11
