/-
  C03 — Order-preserving kinds assign IDs in lexicographic (unsigned byte) order.
-/
import CSD.Generated.Bodies
import CSD.Model.SourceText
import CSD.Lemmas.PFCMeta
import CSD.Lemmas.RPDAC2
import CSD.Lemmas.FM11
import CSD.Lemmas.RPFC6
import CSD.Lemmas.PFCIter
import CSD.Lemmas.RPFC10

namespace CSD.Props.C03
open CSD CSD.PFC

/-- `extract(i)` is the `i`-th smallest member: it is the `i`-th element of the
strictly sorted input, so exactly `i - 1` members are smaller. -/
theorem pfc_extract_is_ith_smallest (b : Nat) (S : List Str) (hv : validDict S = true)
    (i : Nat) (h1 : 1 ≤ i) (h2 : i ≤ S.length) :
    ∃ s, PFC.extract (PFC.build b S) i = some (some s) ∧
      (∀ j, j < i - 1 → ∀ hj : j < S.length, scmp S[j] s < 0) ∧
      (∀ j, i - 1 < j → ∀ hj : j < S.length, scmp s S[j] < 0) := by
  obtain ⟨_, hn, hsort, _⟩ := validDict_facts hv
  have hlt : i - 1 < S.length := by omega
  refine ⟨S[i - 1], ?_, ?_, ?_⟩
  · rw [extract_build b S hn i h1 h2, List.getElem?_eq_getElem hlt]
  · intro j hj _; exact hsort.getElem_lt hj hlt
  · intro j hj hjl; exact hsort.getElem_lt hj hjl

/-- `s < t` implies `locate(s) < locate(t)` for members. -/
theorem pfc_locate_monotone (b : Nat) (S : List Str) (hv : validDict S = true)
    (s t : Str) (hs : s ∈ S) (ht : t ∈ S) (hlt : scmp s t < 0) :
    ∃ i j, PFC.locate (PFC.build b S) s = some i ∧ PFC.locate (PFC.build b S) t = some j ∧ i < j := by
  obtain ⟨hne, hn, hsort, _⟩ := validDict_facts hv
  obtain ⟨a, ha, hae⟩ := List.mem_iff_getElem.mp hs
  obtain ⟨c, hc, hce⟩ := List.mem_iff_getElem.mp ht
  refine ⟨a + 1, c + 1, ?_, ?_, ?_⟩
  · rw [locate_build b S s hne hn (hn s hs) hsort, ← hae, Spec.locate_getElem hsort a ha]
  · rw [locate_build b S t hne hn (hn t ht) hsort, ← hce, Spec.locate_getElem hsort c hc]
  · -- a < c, otherwise S[c] ≤ S[a]
    rcases Nat.lt_trichotomy a c with h | h | h
    · omega
    · subst h; rw [← hae, ← hce] at hlt; exact absurd hlt (scmp_irrefl_lt _)
    · have := hsort.getElem_lt h ha
      rw [hae, hce] at this
      exact absurd (scmp_trans_lt hlt this) (scmp_irrefl_lt _)

/-- `locateRank(k) = k` and `extractRank(k) = extract(k)` in the code (one-line
functions, tied by the generated fragment `RankOps`), so `extractRank(k)` is the
`k`-th smallest member by the theorem above. -/
theorem pfc_rank_identity (b : Nat) (S : List Str) (hv : validDict S = true)
    (k : Nat) (h1 : 1 ≤ k) (h2 : k ≤ S.length) :
    PFC.extract (PFC.build b S) k = some (Spec.extract S k) := by
  obtain ⟨_, hn, _, _⟩ := validDict_facts hv
  rw [extract_build b S hn k h1 h2]
  simp [Spec.extract, show k ≠ 0 by omega]

/-! ### RPDAC (model of `RePair::extractStringAndCompareDAC`, `expandRuleAndCompareString` and of the
binary search of `StringDictionaryRPDAC::locate`, over an arbitrary grammar) -/

/-- **RPDAC IDs are lexicographic ranks**: whatever rules Re-Pair produced and however the strings
were cut into symbols — as long as the rules are well-founded and sequence `i` expands to string `i`
(`Represents`, re-validated on the real object on every run) — `locate(q)` is the specification's
`locate`: the 1-based rank of `q` among the members, 0 for an absent string; every comparison reads
inside the query's buffer. -/
theorem rpdac_locate_is_rank (d : RPDAC.D) (S : List Str) (r : RPDAC.Represents d S) (hv : validDict S = true)
    (q : Str) (hq : nulFree q) : RPDAC.locate d (RPDAC.bytesNat q) = some (Spec.locate S q) := by
  obtain ⟨_, hn, hs, _⟩ := validDict_facts hv
  exact RPDAC.locate_represents d S r hn hs q hq

/-- `extract(i)` is the `i`-th smallest member; IDs outside `1 … n` extract nothing. -/
theorem rpdac_extract_is_ith (d : RPDAC.D) (S : List Str) (r : RPDAC.Represents d S) (i : Nat) :
    RPDAC.extract d i = if h : 1 ≤ i ∧ i ≤ S.length then some (RPDAC.bytesNat (S[i - 1]'(by omega))) else none :=
  RPDAC.extract_represents d S r i

/-- The comparison the search is built on is `strcmp` itself. -/
theorem rpdac_compare_is_strcmp (g : RePair.Grammar) (hwf : g.wf = true) (syms : List Nat)
    (hval : ∀ s ∈ syms, s < g.terminals + g.rules.length) (s q : Str)
    (hexp : g.expand syms = RPDAC.bytesNat s) (hs : nulFree s) (hq : nulFree q) :
    RPDAC.compareDAC g syms (RPDAC.bytesNat q) = some (scmp s q) :=
  RPDAC.compareDAC_eq g hwf syms hval s q hexp hs hq

/-- Non-vacuity: the grammar `99 → a b` and the sequences `[99]`, `[99, 99]` represent {ab, abab}. -/
example : RPDAC.Represents { g := { terminals := 99, rules := [(97, 98)] }, seqs := [[99], [99, 99]] }
    [[0x61, 0x62], [0x61, 0x62, 0x61, 0x62]] where
  wf := by decide
  len := rfl
  valid := by decide
  exp := by
    intro i h1 h2
    match i with
    | 0 => rfl
    | 1 => rfl
    | n + 2 => simp at h1; omega

example : validDict [[0x61], [0x62]] = true ∧ scmp [0x61] [0x62] < 0 := by decide

/-- The models this file's theorems are about were written against the current text of the C++
functions they mirror (`CSD/Generated/Bodies.lean` is re-extracted from the sources on every run,
`CSD/Model/SourceText.lean` is what was reviewed): an edit of one of these functions breaks this
obligation even if no generated input tells the behaviours apart. -/
theorem models_match_source_text :
    Generated.body_PFC_ctor = SourceText.body_PFC_ctor ∧
    Generated.body_PFC_locate = SourceText.body_PFC_locate ∧
    Generated.body_PFC_locateBucket = SourceText.body_PFC_locateBucket ∧
    Generated.body_PFC_getHeader = SourceText.body_PFC_getHeader ∧
    Generated.body_PFC_decodeNextString = SourceText.body_PFC_decodeNextString ∧
    Generated.body_PFC_extract = SourceText.body_PFC_extract ∧
    Generated.body_RPDAC_locate = SourceText.body_RPDAC_locate ∧
    Generated.body_RPDAC_extract = SourceText.body_RPDAC_extract ∧
    Generated.body_RePair_compareDAC = SourceText.body_RePair_compareDAC ∧
    Generated.body_RePair_compareRule = SourceText.body_RePair_compareRule ∧
    Generated.body_RePair_expandRule = SourceText.body_RePair_expandRule ∧
    Generated.body_DAC_VLS_access = SourceText.body_DAC_VLS_access ∧
    Generated.body_DAC_VLS_access_next = SourceText.body_DAC_VLS_access_next := ⟨rfl, rfl, rfl, rfl, rfl, rfl, rfl, rfl, rfl, rfl, rfl, rfl, rfl⟩


/-! ### FMINDEX -/

/-- `StringDictionaryFMINDEX::locate` of the `i`-th smallest member is `i` (1-based): the row of
`\1 s \1` in the suffix array is preceded by the three rows `""`, `\0`, `\1\0` and by the separator
suffixes of the smaller members, whatever the suffix sorting algorithm produced. -/
theorem fmindex_locate_is_rank {S : List Str} {L : List FM.Row} {d : FM.Dict} (hv : validDict S = true)
    (hd : FM.DictOK S L d) (i : Nat) (hi : i < S.length) : d.locate S[i] = some (i + 1) := by
  have hall : S[i].all validByte = true := by
    simp only [validDict, Bool.and_eq_true, List.all_eq_true] at hv
    have := hv.1.2 S[i] (List.getElem_mem hi)
    simp only [validStr, Bool.and_eq_true] at this
    exact this.2
  have hs : SortedLt S := sortedLt_of_sortedStrict S (by
    simp only [validDict, Bool.and_eq_true] at hv; exact hv.2)
  rw [FM.locate_spec hv hd S[i] hall, Spec.locate_getElem hs i hi]

example : validDict [[0x61, 0x62], [0x62]] = true ∧ ∃ L d, FM.DictOK [[0x61, 0x62], [0x62]] L d :=
  ⟨by decide, _, _, FM.dictOK_buildDict _ 2⟩


/-- `extract(i + 1)` is the `i`-th smallest member (0-based `i`). -/
theorem fmindex_extract_is_ith_smallest {S : List Str} {L : List FM.Row} {d : FM.Dict} (hv : validDict S = true)
    (hd : FM.DictOK S L d) (hml : ∀ s ∈ S, s.length < d.maxlength) (i : Nat) (hi : i < S.length) :
    d.extract (i + 1) = some (some (FM.symsOf S[i])) := FM.extract_spec hv hd hml i hi

/-- The FM-index models were written against the current text of the C++ functions they mirror. -/
theorem fm_models_match_source_text :
    Generated.body_SSA_locate_id = SourceText.body_SSA_locate_id ∧
    Generated.body_SSA_locateP = SourceText.body_SSA_locateP ∧
    Generated.body_SSA_locate = SourceText.body_SSA_locate ∧
    Generated.body_SSA_extract_id = SourceText.body_SSA_extract_id ∧
    Generated.body_SSA_build_index = SourceText.body_SSA_build_index ∧
    Generated.body_SSA_build_bwt = SourceText.body_SSA_build_bwt ∧
    Generated.body_FMINDEX_ctor = SourceText.body_FMINDEX_ctor ∧
    Generated.body_FMINDEX_locate = SourceText.body_FMINDEX_locate ∧
    Generated.body_FMINDEX_extract = SourceText.body_FMINDEX_extract ∧
    Generated.body_FMINDEX_locatePrefix = SourceText.body_FMINDEX_locatePrefix ∧
    Generated.body_FMINDEX_locateSubstr = SourceText.body_FMINDEX_locateSubstr ∧
    Generated.body_FMINDEX_build_ssa = SourceText.body_FMINDEX_build_ssa :=
  ⟨rfl, rfl, rfl, rfl, rfl, rfl, rfl, rfl, rfl, rfl, rfl, rfl⟩


/-! ### RPFC -/

/-- `extract(i)` of RPFC is the `i`-th smallest member, whatever grammar stores the buckets. -/
theorem rpfc_extract_is_ith_smallest {S : List Str} {d : RPFC.D} (hst : RPFC.Stores S d) (i : Nat) (h1 : 1 ≤ i)
    (h2 : i ≤ S.length) : RPFC.extract d i = some (S[i - 1]?) := RPFC.extract_stores hst i h1 h2

/-- `locate` of the `i`-th smallest member is `i + 1` for RPFC. -/
theorem rpfc_locate_is_rank {S : List Str} {d : RPFC.D} (hst : RPFC.Stores S d) (hv : validDict S = true)
    (i : Nat) (hi : i < S.length) : RPFC.locate d S[i] = some (i + 1) := by
  obtain ⟨hne, hn, hs, _⟩ := validDict_facts hv
  rw [RPFC.locate_stores hst S[i] hne hn (hn _ (List.getElem_mem hi)) hs, Spec.locate_getElem hs i hi]

/-- The RPFC models were written against the current text of the C++ functions they mirror. -/
theorem rpfc_models_match_source_text :
    Generated.body_RPFC_decodeString = SourceText.body_RPFC_decodeString ∧
    Generated.body_RPFC_decodeSymbol = SourceText.body_RPFC_decodeSymbol ∧
    Generated.body_RPFC_getHeader = SourceText.body_RPFC_getHeader ∧
    Generated.body_RPFC_locateBucket = SourceText.body_RPFC_locateBucket ∧
    Generated.body_RPFC_locate = SourceText.body_RPFC_locate ∧
    Generated.body_RPFC_extract = SourceText.body_RPFC_extract ∧
    Generated.body_RPFC_locatePrefix = SourceText.body_RPFC_locatePrefix ∧
    Generated.body_RPFC_locateBoundaryBuckets = SourceText.body_RPFC_locateBoundaryBuckets ∧
    Generated.body_RPFC_searchPrefix = SourceText.body_RPFC_searchPrefix ∧
    Generated.body_RPFC_searchDistinctPrefix = SourceText.body_RPFC_searchDistinctPrefix :=
  ⟨rfl, rfl, rfl, rfl, rfl, rfl, rfl, rfl, rfl, rfl⟩

/-- **The table scans enumerate in lexicographic (unsigned byte) order**: PFC under any bucket size and RPFC over
any storing grammar scan to one and the same strictly ascending list, whose `k`-th string is the member with ID `k`. -/
theorem table_scans_ascending {S : List Str} (hv : validDict S = true) (b : Nat) {dR : RPFC.D} (hR : RPFC.Stores S dR) :
    ∃ T, PFC.table (PFC.build b S) = some T ∧ RPFC.extractTable dR = some T ∧ SortedLt T ∧
      ∀ k, 1 ≤ k → k ≤ S.length → PFC.extract (PFC.build b S) k = some T[k - 1]? ∧ RPFC.extract dR k = some T[k - 1]? := by
  obtain ⟨hne, hn, hs, _⟩ := PFC.validDict_facts hv
  exact ⟨S, PFC.table_build b S hne hn, RPFC.extractTable_stores hR hne, hs,
    fun k h1 h2 => ⟨PFC.extract_build b S hn k h1 h2, RPFC.extract_stores hR k h1 h2⟩⟩

end CSD.Props.C03
