/-
  C03 — Order-preserving kinds assign IDs in lexicographic (unsigned byte) order.
-/
import CSD.Lemmas.PFCMeta

namespace CSD.Props.C03
open CSD CSD.PFC

/-- `extract(i)` is the `i`-th smallest member: it is the `i`-th element of the
strictly sorted input, so exactly `i - 1` members are smaller. -/
theorem pfc_extract_is_ith_smallest (b : Nat) (S : List Str) (hv : validDict S = true)
    (i : Nat) (h1 : 1 ≤ i) (h2 : i ≤ S.length) :
    ∃ s, PFC.extract (PFC.build b S) i = some (some s) ∧
      (∀ j, j < i - 1 → ∀ hj : j < S.length, scmp S[j] s < 0) ∧
      (∀ j, i - 1 < j → ∀ hj : j < S.length, scmp s S[j] < 0) := by
  obtain ⟨_, hn, hsort, _⟩ := validDict_facts hv
  have hlt : i - 1 < S.length := by omega
  refine ⟨S[i - 1], ?_, ?_, ?_⟩
  · rw [extract_build b S hn i h1 h2, List.getElem?_eq_getElem hlt]
  · intro j hj _; exact hsort.getElem_lt hj hlt
  · intro j hj hjl; exact hsort.getElem_lt hj hjl

/-- `s < t` implies `locate(s) < locate(t)` for members. -/
theorem pfc_locate_monotone (b : Nat) (S : List Str) (hv : validDict S = true)
    (s t : Str) (hs : s ∈ S) (ht : t ∈ S) (hlt : scmp s t < 0) :
    ∃ i j, PFC.locate (PFC.build b S) s = some i ∧ PFC.locate (PFC.build b S) t = some j ∧ i < j := by
  obtain ⟨hne, hn, hsort, _⟩ := validDict_facts hv
  obtain ⟨a, ha, hae⟩ := List.mem_iff_getElem.mp hs
  obtain ⟨c, hc, hce⟩ := List.mem_iff_getElem.mp ht
  refine ⟨a + 1, c + 1, ?_, ?_, ?_⟩
  · rw [locate_build b S s hne hn (hn s hs) hsort, ← hae, Spec.locate_getElem hsort a ha]
  · rw [locate_build b S t hne hn (hn t ht) hsort, ← hce, Spec.locate_getElem hsort c hc]
  · -- a < c, otherwise S[c] ≤ S[a]
    rcases Nat.lt_trichotomy a c with h | h | h
    · omega
    · subst h; rw [← hae, ← hce] at hlt; exact absurd hlt (scmp_irrefl_lt _)
    · have := hsort.getElem_lt h ha
      rw [hae, hce] at this
      exact absurd (scmp_trans_lt hlt this) (scmp_irrefl_lt _)

/-- `locateRank(k) = k` and `extractRank(k) = extract(k)` in the code (one-line
functions, tied by the generated fragment `RankOps`), so `extractRank(k)` is the
`k`-th smallest member by the theorem above. -/
theorem pfc_rank_identity (b : Nat) (S : List Str) (hv : validDict S = true)
    (k : Nat) (h1 : 1 ≤ k) (h2 : k ≤ S.length) :
    PFC.extract (PFC.build b S) k = some (Spec.extract S k) := by
  obtain ⟨_, hn, _, _⟩ := validDict_facts hv
  rw [extract_build b S hn k h1 h2]
  simp [Spec.extract, show k ≠ 0 by omega]

example : validDict [[0x61], [0x62]] = true ∧ scmp [0x61] [0x62] < 0 := by decide

end CSD.Props.C03
