/-
  C10 — Worker pool: every queued task runs exactly once; shutdown always completes.

  Theorems about the transition-system model of `parallel/Worker.hpp`
  (`CSD/Model/Pool.lean`): any number of workers, any list of tasks, every
  interleaving of the producer (`add … add; stop; join`) with the workers,
  spurious wake-ups included.
-/
import CSD.Lemmas.PoolTerm3
import CSD.Lemmas.PoolThms
import CSD.Generated.PoolOps

namespace CSD.Props.C10
open CSD.Pool

/-- No task is ever executed more often than it was submitted (so a task
submitted once runs at most once, and never concurrently with itself: it is in
one worker's hand only). -/
theorem at_most_once {n : Nat} {tasks : List Nat} {s : State} (h : Reachable n tasks s) (x : Nat) :
    s.ran.count x ≤ tasks.count x :=
  Pool.at_most_once h x

/-- When `wait_workers` has returned, every task handed to the pool before the
stop has been executed exactly once — for every worker count ≥ 1, every number of
tasks ≥ 0 and every schedule. -/
theorem exactly_once_at_termination {n : Nat} {tasks : List Nat} {s : State} (hn : 0 < n)
    (h : Reachable n tasks s) (hd : s.prod = .done) (x : Nat) :
    s.ran.count x = tasks.count x :=
  Pool.exactly_once_at_termination hn h hd x

/-- No wake-up is lost: as long as `wait_workers` has not returned, some thread
can move. In particular no worker sleeps forever on an empty queue after stop,
and a task added while all workers are about to sleep is still picked up. -/
theorem no_deadlock {n : Nat} {tasks : List Nat} {s : State} (h : Reachable n tasks s)
    (hnd : s.prod ≠ .done) : ¬ Stuck step s :=
  Pool.no_deadlock h hnd

/-- The property is **false** of the pool as originally written (state changed
without `shared_mutex`): a concrete schedule after which a worker sleeps forever
with its stop flag set (defect D10, repaired in /repo). Kept so that a return of
the old behaviour is recognised. -/
theorem unrepaired_pool_can_hang :
    ∃ s, runSched stepUnlocked (init 1 []) lostWakeupSchedule = some s ∧
      Stuck stepUnlocked s ∧ s.prod = .join ∧ s.wpc 0 = .waiting ∧ s.stopped 0 = true :=
  Pool.lost_wakeup_unlocked

/-- The model is the model of the code that is there now: the synchronisation
skeleton extracted from `parallel/Worker.hpp` on this run is the one the
transition system was written against, and the raw members are touched only
inside their guarded accessors (4 uses each: declaration/constructor and the
accessors). -/
theorem model_matches_source :
    CSD.Generated.poolOps = sourceShape ∧ CSD.Generated.rawQueueUses = 4 ∧ CSD.Generated.rawStoppedUses = 4 :=
  ⟨rfl, rfl, rfl⟩

/-- **Every execution is finite.** Whatever the schedule — any interleaving of the producer and the `n`
workers, with any number of spurious wake-ups injected by the environment — the producer and the workers
together perform at most `(4n+1)(3T+n+4) + (4n+7)T + n(4n+8)` steps plus four per spurious wake-up
(`T` tasks). Proof: a potential (remaining producer steps, tasks not yet taken, a local rank per worker)
that every program step lowers; a `notify_all` is paid for by the step that issues it. -/
theorem every_execution_is_finite (n : Nat) (tasks : List Nat) (sched : List Tid) (s : State)
    (h : runSched step (init n tasks) sched = some s) :
    progSteps sched ≤ K n * (3 * tasks.length + n + 4) + (K n + 6) * tasks.length + n * (K n + 7) + 4 * spurSteps sched :=
  bounded_run n tasks sched s h

/-- **Completion.** A run that cannot be extended (no thread of the program can move) has finished the
job: the producer has returned from `wait_workers` and every task has run exactly once. Together with
the bound above: every fair execution terminates with the work done. -/
theorem maximal_run_completes (n : Nat) (hn : 0 < n) (tasks : List Nat) (sched : List Tid) (s : State)
    (h : runSched step (init n tasks) sched = some s) (hstuck : Stuck step s) :
    s.prod = .done ∧ ∀ x, s.ran.count x = tasks.count x :=
  maximal_run_is_complete n hn tasks sched s h hstuck

/-- Non-vacuity: the initial state is reachable and is not terminal. -/
example : Reachable 2 [7, 8] (init 2 [7, 8]) ∧ (init 2 [7, 8]).prod ≠ .done :=
  ⟨Reachable.init, by decide⟩

end CSD.Props.C10
