/-
  C13 — Table scan and iterators: each member once, in ID order, sound protocol.
-/
import CSD.Lemmas.RPDAC2
import CSD.Generated.Bodies
import CSD.Model.SourceText
import CSD.Lemmas.PFCIter
import CSD.Lemmas.IdIter
import CSD.Lemmas.FM17
import CSD.Lemmas.RPDACIter
import CSD.Lemmas.PFCRange
import CSD.Lemmas.RPFC10
import CSD.Lemmas.HashBlocksIter

namespace CSD.Props.C13
open CSD CSD.PFC

/-- `extractTable()` of a PFC dictionary: draining the iterator (`while hasNext:
next`) yields exactly `numElements` strings, the `k`-th being the `k`-th member of
the sorted input — hence `extract(k)` —, `hasNext` is false after the last one,
and the iterator never decodes beyond the last string (every read is inside the
text), for every bucket size. -/
theorem pfc_table_scan (b : Nat) (S : List Str) (hv : validDict S = true) :
    PFC.table (PFC.build b S) = some S := by
  obtain ⟨hne, hn, _, _⟩ := validDict_facts hv
  exact table_build b S hne hn

/-- The `k`-th string of the table scan is `extract(k)`. -/
theorem pfc_table_kth_is_extract (b : Nat) (S : List Str) (hv : validDict S = true)
    (k : Nat) (h1 : 1 ≤ k) (h2 : k ≤ S.length) :
    ∃ T, PFC.table (PFC.build b S) = some T ∧ T.length = (PFC.build b S).elements ∧
      PFC.extract (PFC.build b S) k = some T[k - 1]? := by
  obtain ⟨hne, hn, _, _⟩ := validDict_facts hv
  exact ⟨S, table_build b S hne hn, rfl, extract_build b S hn k h1 h2⟩

/-- **Scans starting at any in-bucket offset**: the string iterator over the ID range `[left, right]`
(`IteratorDictStringPFC` as `extractPrefix` opens it: header copied, `offset − 1` strings decoded, then
`right − left + 1` calls of `next` across bucket boundaries) yields exactly the members with those IDs, in
order, and stops there; every read stays inside the text. For every bucket size and every range. -/
theorem pfc_range_scan_exact (b : Nat) (S : List Str) (hv : validDict S = true) (left right : Nat)
    (h1 : 1 ≤ left) (h2 : left ≤ right) (h3 : right ≤ S.length) :
    PFC.scanRange (PFC.build b S) left right = some ((S.drop (left - 1)).take (right - left + 1)) := by
  obtain ⟨_, hn, _, _⟩ := validDict_facts hv
  exact scanRange_build b S hn left right h1 h2 h3

/-- ID iterators: a contiguous range is enumerated once each, ascending; the empty
encoding yields nothing (no read at all: the iterator owns no array). -/
theorem id_iterator_protocol (left right : Nat) (h1 : 1 ≤ left) (h2 : left ≤ right) (h3 : right < 2 ^ 64) :
    IdIter.Contig.drain (right - left + 2) (IdIter.Contig.mk' left right)
      = (List.range (right - left + 1)).map (· + left) ∧
    ∀ fuel, IdIter.Contig.drain fuel (IdIter.Contig.mk' 0 0) = [] :=
  ⟨IdIter.contig_drain left right h1 h2 h3, IdIter.contig_empty⟩

example : validDict [[0x61], [0x61, 0x62], [0x62]] = true := by decide

/-- RPDAC table scan (`IteratorDictStringRPDAC`: for ID 1, 2, …, n: DAC access, expansion of every
symbol): the strings come out in ID order and are the dictionary — for any grammar representing it. -/
theorem rpdac_table_scan (d : RPDAC.D) (S : List Str) (r : RPDAC.Represents d S) :
    (List.range S.length).map (fun i => RPDAC.extract d (i + 1)) = S.map (fun s => some (RPDAC.bytesNat s)) := by
  apply List.ext_getElem
  · simp
  · intro i h1 h2
    have hi : i < S.length := by simpa using h1
    simp only [List.getElem_map, List.getElem_range]
    rw [RPDAC.extract_represents d S r (i + 1), dif_pos ⟨by omega, by omega⟩]
    simp

/-- The models this file's theorems are about were written against the current text of the C++
functions they mirror (`CSD/Generated/Bodies.lean` is re-extracted from the sources on every run,
`CSD/Model/SourceText.lean` is what was reviewed): an edit of one of these functions breaks this
obligation even if no generated input tells the behaviours apart. -/
theorem models_match_source_text :
    Generated.body_PFC_ctor = SourceText.body_PFC_ctor ∧
    Generated.body_PFC_getHeader = SourceText.body_PFC_getHeader ∧
    Generated.body_PFC_decodeNextString = SourceText.body_PFC_decodeNextString ∧
    Generated.body_PFC_extractTable = SourceText.body_PFC_extractTable ∧
    Generated.body_PFCIter_ctor = SourceText.body_PFCIter_ctor ∧
    Generated.body_PFCIter_next = SourceText.body_PFCIter_next ∧
    Generated.body_PFCIter_decodeNext = SourceText.body_PFCIter_decodeNext := ⟨rfl, rfl, rfl, rfl, rfl, rfl, rfl⟩


/-! ### FMINDEX -/

/-- `StringDictionaryFMINDEX::extractTable`: the iterator (`IteratorDictStringFMINDEX`: row 2 for the last ID,
`ID + 3` otherwise, one `extract_id` per `next`) yields exactly the members in ID order — the `k`-th string is
`extract(k)` — and `hasNext` becomes false after the last one; every `extract_id` stays inside the index and
its result buffer. For every valid `S`, every suffix array of its text and every index built from it. -/
theorem fmindex_table_scan_exact {S : List Str} {L : List FM.Row} {d : FM.Dict} (hv : validDict S = true)
    (hd : FM.DictOK S L d) (hml : ∀ s ∈ S, s.length < d.maxlength) :
    d.extractTable = some (S.map FM.symsOf) := FM.extractTable_spec hv hd hml

/-- A scan over the IDs `i + 1 … i + k` (what `extractPrefix` opens on the range of `locatePrefix`) yields
`S[i], …, S[i + k - 1]`. -/
theorem fmindex_range_scan_exact {S : List Str} {L : List FM.Row} {d : FM.Dict} (hv : validDict S = true)
    (hd : FM.DictOK S L d) (hml : ∀ s ∈ S, s.length < d.maxlength) (k i : Nat) (h : i + k ≤ S.length) :
    d.drain k { processed := i + 1, scanneable := i + k + 1, last := d.elements }
      = some (((S.drop i).take k).map FM.symsOf) := FM.drain_spec hv hd hml k i k h (Nat.le_refl _)


/-! ### RPDAC -/

/-- `StringDictionaryRPDAC::extractTable`: the iterator (`IteratorDictStringRPDAC`: one DAC access and one
expansion per `next`) yields exactly the members in ID order, over any grammar and sequences that represent
the dictionary; it never reads a position past the list. -/
theorem rpdac_table_scan_exact (d : RPDAC.D) (S : List Str) (r : RPDAC.Represents d S) :
    RPDAC.extractTable d = some (S.map RPDAC.bytesNat) := RPDAC.extractTable_represents d S r

/-! ### RPFC -/

/-- **RPFC table scan** (`IteratorDictStringRPFC` from bucket 1, offset 0, `elements` strings): over every
grammar and symbol streams that store the dictionary the drained iterator is the sorted input — the `k`-th
string is `extract(k)` (`rpfc_extract_exact` of C01) — and `hasNext` is false afterwards. -/
theorem rpfc_table_scan_exact {S : List Str} {d : RPFC.D} (hst : RPFC.Stores S d) (hv : validDict S = true) :
    RPFC.extractTable d = some S := by
  obtain ⟨hne, _, _, _⟩ := validDict_facts hv
  exact RPFC.extractTable_stores hst hne

/-- The `k`-th string of the RPFC table scan is `extract(k)`, and the scan has `numElements` strings. -/
theorem rpfc_table_kth_is_extract {S : List Str} {d : RPFC.D} (hst : RPFC.Stores S d) (hv : validDict S = true)
    (k : Nat) (h1 : 1 ≤ k) (h2 : k ≤ S.length) :
    ∃ T, RPFC.extractTable d = some T ∧ T.length = d.elements ∧ RPFC.extract d k = some T[k - 1]? := by
  obtain ⟨hne, _, _, _⟩ := validDict_facts hv
  exact ⟨S, RPFC.extractTable_stores hst hne, hst.elements.symm, RPFC.extract_stores hst k h1 h2⟩

/-- **RPFC scans starting at any in-bucket offset**: the iterator over the ID range `[left, right]` yields
exactly the members with those IDs, in order, and stops there. -/
theorem rpfc_range_scan_exact {S : List Str} {d : RPFC.D} (hst : RPFC.Stores S d) (left right : Nat)
    (h1 : 1 ≤ left) (h2 : left ≤ right) (h3 : right ≤ S.length) :
    RPFC.scanRange d left right = some ((S.drop (left - 1)).take (right - left + 1)) :=
  RPFC.scanRange_stores hst left right h1 h2 h3

/-- The RPFC iterator model was written against the current text of the C++ functions it mirrors. -/
theorem rpfc_iterator_models_match_source_text :
    Generated.body_RPFC_extractTable = SourceText.body_RPFC_extractTable ∧
    Generated.body_RPFCIter_ctor = SourceText.body_RPFCIter_ctor ∧
    Generated.body_RPFCIter_next = SourceText.body_RPFCIter_next ∧
    Generated.body_RPFCIter_decodeNext = SourceText.body_RPFCIter_decodeNext := ⟨rfl, rfl, rfl, rfl⟩

/-- The FMINDEX iterator model was written against the current text of the C++ functions it mirrors. -/
theorem fm_iterator_models_match_source_text :
    Generated.body_FMINDEX_extractTable = SourceText.body_FMINDEX_extractTable ∧
    Generated.body_FMIter_next = SourceText.body_FMIter_next ∧
    Generated.body_FMIterDup_next = SourceText.body_FMIterDup_next := ⟨rfl, rfl, rfl⟩

/-! ### HASHRPDACBlocks -/

/-- **The table scan of the blocks dictionary** (`IteratorDictStringHRPDACBlocks`: part after part, local IDs
`1 … size of the part`, `to_index() − starting_indexes[partIdx]` as the size) yields exactly
`extract(1), …, extract(n)` — `numElements` strings, the `k`-th being `extract(k)` — and `hasNext` is false
afterwards; for every cut size, every table-size function and every non-empty input. -/
theorem blocks_table_scan_exact (cutSize : Nat) (tsizeOf : Nat → Nat) (S : List Str) (hne : S ≠ []) :
    Hash.tableBlocks (Hash.buildBlocks cutSize tsizeOf S) =
      some ((List.range S.length).map fun i => Hash.extractBlocks (Hash.buildBlocks cutSize tsizeOf S) (i + 1)) :=
  Hash.tableBlocks_build cutSize tsizeOf S hne

/-- **Each member once**: when every part's table holds its block and has a size `nearest_prime` accepted
(`PartsOK`, re-validated per run by the driver), that scan lists `n` strings, every one a member, none twice —
so every member exactly once. -/
theorem blocks_table_scan_each_member_once {cutSize : Nat} {tsizeOf : Nat → Nat} {S : List Str}
    (ok : Hash.PartsOK cutSize tsizeOf S) (hne : S ≠ []) :
    ∃ L : List Str, Hash.tableBlocks (Hash.buildBlocks cutSize tsizeOf S) = some (L.map some) ∧
      L.length = S.length ∧ L.Nodup ∧ ∀ w ∈ L, w ∈ S :=
  Hash.tableBlocks_each_once ok hne

/-- The single-table hash kinds fill the table with `extract(1), …, extract(n)` (`IteratorDictStringVector`): over
a good table (`Hash.GoodDict`: the hypotheses of the hash theorems of C01 / C02) that lists every member exactly
once. -/
theorem hash_table_scan_each_member_once {d : Hash.HDict} (g : Hash.GoodDict d) :
    ∃ L : List Str, Hash.tableHash d = L.map some ∧ L.length = d.S.length ∧ L.Nodup ∧ ∀ w ∈ L, w ∈ d.S :=
  Hash.tableHash_each_once g

/-- The blocks iterator model was written against the current text of the C++ functions it mirrors. -/
theorem blocks_iterator_models_match_source_text :
    Generated.body_Blocks_extractTable = SourceText.body_Blocks_extractTable ∧
    Generated.body_BlocksIter_to_index = SourceText.body_BlocksIter_to_index ∧
    Generated.body_BlocksIter_hasNext = SourceText.body_BlocksIter_hasNext ∧
    Generated.body_BlocksIter_next = SourceText.body_BlocksIter_next := ⟨rfl, rfl, rfl, rfl⟩

end CSD.Props.C13
