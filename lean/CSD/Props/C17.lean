/-
  C17 — Integer containers and codecs round-trip every value.

  Property theorems only; proofs are one-liners calling CSD/Lemmas.
-/
import CSD.Lemmas.VByte

namespace CSD.Props.C17
open CSD

/-- VByte: decoding what was encoded gives the value back and consumes exactly
the bytes that were written — for every value, whatever follows in the buffer. -/
theorem vbyte_roundtrip (c : Nat) (rest : List UInt8) :
    VByte.decode (VByte.encode c ++ rest) = some (c, (VByte.encode c).length) :=
  VByte.decode_encode c rest

/-- The machine-level (32-bit accumulator, checked shift) decode also returns
the value and the same byte count for every 32-bit value: no wrap, no shift ≥ 32. -/
theorem vbyte_roundtrip_32 (c : Nat) (h : c < 2 ^ 32) (rest : List UInt8) :
    VByte.decode32 (VByte.encode c ++ rest) = .ok c (VByte.encode c).length :=
  VByte.decode32_encode c h rest

/-- A 32-bit value never takes more than 5 bytes. -/
theorem vbyte_length_le_five (c : Nat) (h : c < 2 ^ 32) : (VByte.encode c).length ≤ 5 :=
  VByte.encode_length_le_five c h

/-- Non-vacuity: the hypotheses are satisfiable (a value that needs three bytes,
followed by an unrelated byte). -/
example : VByte.decode32 (VByte.encode 16384 ++ [77]) = .ok 16384 (VByte.encode 16384).length :=
  vbyte_roundtrip_32 16384 (by decide) [77]

end CSD.Props.C17
