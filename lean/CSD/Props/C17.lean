/-
  C17 — Integer containers and codecs round-trip every value.

  Property theorems only; proofs are one-liners calling CSD/Lemmas.
-/
import CSD.Generated.Bodies
import CSD.Model.SourceText
import CSD.Lemmas.VByte
import CSD.Lemmas.LogSeq
import CSD.Lemmas.LogSeqIO
import CSD.Lemmas.DAC
import CSD.Lemmas.DACImage
import CSD.Lemmas.RPFCPack

namespace CSD.Props.C17
open CSD

/-- VByte: decoding what was encoded gives the value back and consumes exactly
the bytes that were written — for every value, whatever follows in the buffer. -/
theorem vbyte_roundtrip (c : Nat) (rest : List UInt8) :
    VByte.decode (VByte.encode c ++ rest) = some (c, (VByte.encode c).length) :=
  VByte.decode_encode c rest

/-- The machine-level (32-bit accumulator, checked shift) decode also returns
the value and the same byte count for every 32-bit value: no wrap, no shift ≥ 32. -/
theorem vbyte_roundtrip_32 (c : Nat) (h : c < 2 ^ 32) (rest : List UInt8) :
    VByte.decode32 (VByte.encode c ++ rest) = .ok c (VByte.encode c).length :=
  VByte.decode32_encode c h rest

/-- A 32-bit value never takes more than 5 bytes. -/
theorem vbyte_length_le_five (c : Nat) (h : c < 2 ^ 32) : (VByte.encode c).length ≤ 5 :=
  VByte.encode_length_le_five c h

/-- Non-vacuity: the hypotheses are satisfiable (a value that needs three bytes,
followed by an unrelated byte). -/
example : VByte.decode32 (VByte.encode 16384 ++ [77]) = .ok 16384 (VByte.encode 16384).length :=
  vbyte_roundtrip_32 16384 (by decide) [77]

/-! ### LogSequence (packed integer array) -/

/-- Every position returns the value last stored there, for every field width
1..64 — including fields that straddle a word boundary — provided the value fits
the width (the C++ `setField` throws otherwise) and the field lies inside the
array. -/
theorem logseq_get_after_set (d d' : List LogSeq.Word) (w idx : Nat) (v : LogSeq.Word)
    (hw1 : 1 ≤ w) (hw : w ≤ 64) (hb : idx * w + w ≤ 64 * d.length)
    (hv : ∀ t, w ≤ t → v.getLsbD t = false)
    (hs : LogSeq.setField d w idx v = some d') : LogSeq.getField d' w idx = some v :=
  LogSeq.get_set_same d d' w idx v hw1 hw hb hv hs

/-- …without disturbing any neighbour: every other field reads as before. -/
theorem logseq_set_leaves_others (d d' : List LogSeq.Word) (w idx j : Nat) (v : LogSeq.Word)
    (hw1 : 1 ≤ w) (hw : w ≤ 64) (hb : idx * w + w ≤ 64 * d.length) (hbj : j * w + w ≤ 64 * d.length)
    (hv : ∀ t, w ≤ t → v.getLsbD t = false) (hne : idx ≠ j)
    (hs : LogSeq.setField d w idx v = some d') : LogSeq.getField d' w j = LogSeq.getField d w j :=
  LogSeq.get_set_other d d' w idx j v hw1 hw hb hbj hv hne hs

/-- A write inside the allocated array always succeeds (no out-of-bounds word). -/
theorem logseq_set_in_bounds (d : List LogSeq.Word) (w idx : Nat) (v : LogSeq.Word)
    (hw1 : 1 ≤ w) (hw : w ≤ 64) (hb : idx * w + w ≤ 64 * d.length)
    (hv : ∀ t, w ≤ t → v.getLsbD t = false) :
    ∃ d', LogSeq.setField d w idx v = some d' ∧ d'.length = d.length := by
  obtain ⟨d', h1, h2, _⟩ := LogSeq.setField_spec d w idx v hw1 hw hb hv
  exact ⟨d', h1, h2⟩

/-- The constructor allocates enough words for every index below `numentries`. -/
theorem logseq_alloc_enough (w n idx : Nat) (h : idx < n) :
    idx * w + w ≤ 64 * (LogSeq.mk w n).data.length := by
  simp only [LogSeq.mk, List.length_replicate]
  exact LogSeq.numWords_enough w n idx h

/-- The repaired mask and the x86 behaviour of the unrepaired `~(~0 << bitsField)`
differ exactly at width 64, where the old code computed an empty mask, so that
`setField` OR-ed into the old value (defect D15, fixed in /repo). -/
theorem logseq_unfixed_mask_differs : LogSeq.lowMaskX86 64 ≠ LogSeq.lowMask 64 ∧
    ∀ w, w < 64 → LogSeq.lowMaskX86 w = LogSeq.lowMask w := by
  constructor
  · decide
  · intro w hw
    simp [LogSeq.lowMaskX86, LogSeq.lowMask, Nat.mod_eq_of_lt hw]

/-- `LogSequence(vector, w)` (what every dictionary's positional index is built with): the
constructor succeeds whenever the values fit in `w` bits, and every field reads back its value. -/
theorem logseq_vector_constructor (vs : List Nat) (w : Nat) (hw1 : 1 ≤ w) (hw : w ≤ 64)
    (hv : ∀ v ∈ vs, v ≤ LogSeq.maxVal w) :
    ∃ s, LogSeq.ofList vs w = some s ∧ s.numentries = vs.length ∧
      ∀ j (hj : j < vs.length), s.get j = some (BitVec.ofNat 64 vs[j]) := by
  obtain ⟨s, hs, f⟩ := LogSeq.ofList_spec vs w hw1 hw hv
  exact ⟨s, hs, f.ne, fun j hj => f.got j hj hj⟩

/-- LogSequence on bytes: `load ∘ save = id`, consuming exactly the image. -/
theorem logseq_load_save (s : LogSeq.T) (hb : s.numbits < 256) (hn : s.numentries < 2 ^ 64)
    (hd : s.data.length = LogSeq.numWords s.numbits s.numentries) (rest : List UInt8) :
    LogSeq.load (s.save ++ rest) = some (s, rest) :=
  LogSeq.load_save s hb hn hd rest

/-- **DAC_VLS direct access**: for every list of non-empty sequences — any number, any lengths,
any symbol values — `access(i+1)` walks the levels by rank arithmetic and returns exactly the
`i`-th sequence, every array read in bounds (the result is `some`). The model is the C++
constructor's layout (levels, `levelsIndex`, continuation bitmap with its final mark, `rankLevels`)
and access loop; the correspondence compares that layout and every access with the real object. -/
theorem dac_access_returns_sequence (L : List (List Nat)) (hall : ∀ s ∈ L, s ≠ [])
    (i : Nat) (hi : i < L.length) : DAC.access (DAC.build L) (i + 1) = some L[i] :=
  DAC.access_build L i hi hall

/-- Non-vacuity of the DAC hypotheses, and what the theorem says on a ragged list. -/
example : (∀ s ∈ ([[5], [7, 8, 9], [1, 2]] : List (List Nat)), s ≠ []) ∧
    DAC.access (DAC.build [[5], [7, 8, 9], [1, 2]]) 2 = some [7, 8, 9] := by decide

/-- Non-vacuity: a 50-bit field at index 1 straddles words 0 and 1. -/
example : (1 * 50 + 50 ≤ 64 * (LogSeq.mk 50 2).data.length) ∧ (1 * 50) % 64 + 50 > 64 := by decide

/-- **A DAC_VLS survives save/load unchanged, byte for byte**: `load` applied to the bytes `save` wrote
(followed by anything) returns every scalar field, the level index, the packed level words, the rank samples
and the continuation bitmap (a BitSequenceRG image: words and `BuildRank` counters), and consumes exactly the
image. -/
theorem dac_image_reloads (d : DACImg.Img) (wf : DACImg.WF d) (rest : List UInt8) :
    DACImg.loadImg (DACImg.saveImg d ++ rest) = some (d, rest) :=
  DACImg.loadImg_saveImg d wf rest

/-- Non-vacuity: a one-level DAC over two sequences with a one-bit bitmap. -/
def dacExample : DACImg.Img := {
  tamCode := 16, listLength := 2, nLevels := 1, baseBits := 8, levelsIndex := [0, 2], levels := [513],
  rankLevels := [0], bs := { n := 1, factor := 20, data := [1], Rs := [0] } }

example : DACImg.loadImg (DACImg.saveImg dacExample ++ [9]) = some (dacExample, [9]) := by decide

/-- The models this file's theorems are about were written against the current text of the C++
functions they mirror (`CSD/Generated/Bodies.lean` is re-extracted from the sources on every run,
`CSD/Model/SourceText.lean` is what was reviewed): an edit of one of these functions breaks this
obligation even if no generated input tells the behaviours apart. -/
theorem models_match_source_text :
    Generated.body_VByte_encode = SourceText.body_VByte_encode ∧
    Generated.body_VByte_decode = SourceText.body_VByte_decode ∧
    Generated.body_LogSequence_get_field = SourceText.body_LogSequence_get_field ∧
    Generated.body_LogSequence_set_field = SourceText.body_LogSequence_set_field ∧
    Generated.body_LogSequence_vector_ctor = SourceText.body_LogSequence_vector_ctor ∧
    Generated.body_LogSequence_load = SourceText.body_LogSequence_load ∧
    Generated.body_LogSequence_save = SourceText.body_LogSequence_save ∧
    Generated.body_DAC_VLS_ctor = SourceText.body_DAC_VLS_ctor ∧
    Generated.body_DAC_VLS_access = SourceText.body_DAC_VLS_access ∧
    Generated.body_DAC_VLS_access_next = SourceText.body_DAC_VLS_access_next ∧
    Generated.body_DAC_VLS_save = SourceText.body_DAC_VLS_save ∧
    Generated.body_DAC_VLS_load = SourceText.body_DAC_VLS_load ∧
    Generated.body_RG_save = SourceText.body_RG_save ∧
    Generated.body_RG_load = SourceText.body_RG_load := ⟨rfl, rfl, rfl, rfl, rfl, rfl, rfl, rfl, rfl, rfl, rfl, rfl, rfl, rfl⟩


/-! ### RPFC symbol packing -/

/-- The `bitsrp`-wide fields of RPFC: reading consecutive fields most significant bit first (`decodeSymbol`,
as the model `RPFCImg.unpack` does it when it derives the symbol streams from a saved image) returns every
symbol that was packed, for every width `w ≥ 1`, every list of symbols below `2^w` and whatever padding of
fewer than `w` bits follows. -/
theorem rpfc_unpack_inverts_pack (w : Nat) (hw : 0 < w) (syms : List Nat) (pad : List Bool)
    (hx : ∀ x ∈ syms, x < 2 ^ w) (hp : pad.length < w) :
    RPFCImg.unpack w (syms.length + 1) (RPFCImg.pack w syms ++ pad) = syms :=
  RPFCImg.unpack_pack w hw syms pad (syms.length + 1) hx hp (Nat.lt_succ_self _)

end CSD.Props.C17
