/-
  C02 — No false positives: absent strings give NORESULT, bad IDs give NULL.
-/
import CSD.Generated.Bodies
import CSD.Model.SourceText
import CSD.Lemmas.PFCMeta
import CSD.Lemmas.HashBlocks
import CSD.Lemmas.HashRP
import CSD.Lemmas.HashRPF
import CSD.Lemmas.FM11
import CSD.Lemmas.RPFC6
import CSD.Lemmas.RPDAC2

namespace CSD.Props.C02
open CSD CSD.PFC

/-- A query that is not a member is answered 0 (`NORESULT`) — proper prefixes,
extensions, strings below the first or above the last member, strings over
bytes that occur nowhere: every NUL-free `q ∉ S` — and the lookup reads only
inside the text (`some`). -/
theorem pfc_locate_absent (b : Nat) (S : List Str) (hv : validDict S = true)
    (q : Str) (hq : nulFree q) (habs : q ∉ S) :
    PFC.locate (PFC.build b S) q = some 0 := by
  obtain ⟨hne, hn, hs, _⟩ := validDict_facts hv
  rw [locate_build b S q hne hn hq hs, Spec.locate_not_mem habs]

/-- `extract` of ID 0 or of any ID above the number of elements is NULL, without
touching the text at all. -/
theorem pfc_extract_bad_id (b : Nat) (S : List Str) (i : Nat) (h : i = 0 ∨ i > S.length) :
    PFC.extract (PFC.build b S) i = some none := by
  unfold PFC.extract
  rw [build_elements]
  have : ¬ (i > 0 ∧ i ≤ S.length) := by omega
  simp [this]

/-- Conversely a positive answer is never fabricated: if `locate` returns `i > 0`
then `q` is the member with that rank. -/
theorem pfc_locate_sound (b : Nat) (S : List Str) (hv : validDict S = true)
    (q : Str) (hq : nulFree q) (i : Nat) (hi : 0 < i)
    (h : PFC.locate (PFC.build b S) q = some i) : S[i - 1]? = some q := by
  obtain ⟨hne, hn, hs, _⟩ := validDict_facts hv
  rw [locate_build b S q hne hn hq hs] at h
  have h' : Spec.locate S q = i := Option.some.inj h
  unfold Spec.locate at h'
  cases hidx : S.idxOf? q with
  | none => rw [hidx] at h'; simp at h'; omega
  | some j =>
    rw [hidx] at h'
    simp only at h'
    obtain ⟨hj, hje, _⟩ := List.idxOf?_eq_some_iff.mp hidx
    subst h'
    simp [List.getElem?_eq_getElem hj, hje]

/-- Hash kinds: a string that is not a member is answered 0 — the probe sequence ends at a free cell
or exhausts the table without a match; no stored string compares equal. -/
theorem hash_locate_absent (tsize0 : Nat) (S : List Str) (hnd : S.Nodup) (hcap : S.length ≤ tsize0)
    (hacc : Hash.accepted (Hash.build tsize0 S).tsize = true) (q : Str) (hq : q ∉ S) :
    Hash.locate (Hash.build tsize0 S) q = 0 :=
  Hash.locate_absent (Hash.goodDict_build tsize0 S hnd hcap hacc) q hq

/-- HASHRPDACBlocks: an absent string is answered 0 whichever part the samples select. -/
theorem blocks_locate_absent (cutSize : Nat) (tsizeOf : Nat → Nat) (S : List Str)
    (ok : Hash.PartsOK cutSize tsizeOf S) (q : Str) (hq : q ∉ S) :
    Hash.locateBlocks (Hash.buildBlocks cutSize tsizeOf S) q = 0 :=
  Hash.blocks_locate_absent ok q hq

/-- HASHRPDAC end to end: an absent (NUL-free) query is answered 0 by the real `locate` — no stored
string compares equal through the grammar, and no comparison reads outside the query's buffer. -/
theorem hashrpdac_locate_absent (tsize0 : Nat) (S : List Str) (hnd : S.Nodup) (hcap : S.length ≤ tsize0)
    (hacc : Hash.accepted (Hash.build tsize0 S).tsize = true) (hS : ∀ s ∈ S, PFC.nulFree s)
    (g : RePair.Grammar) (seqs : List (List Nat)) (st : Hash.StoresRP (Hash.build tsize0 S) g seqs)
    (q : Str) (hq : PFC.nulFree q) (habs : q ∉ S) :
    Hash.locateRP (Hash.build tsize0 S) g seqs q = some 0 := by
  have gd := Hash.goodDict_build tsize0 S hnd hcap hacc
  rw [Hash.locateRP_eq gd hS g seqs st q hq, Hash.locate_absent gd q habs]

/-- HASHRPF end to end: an absent query — including one that contains the terminator byte, or that is a
prefix or an extension of a member — is answered 0; `extractStringAndCompareRP` returns 0 only for the
stored string itself and never reads past that string's symbols or past the pattern buffer. -/
theorem hashrpf_locate_absent (tsize0 : Nat) (S : List Str) (hnd : S.Nodup) (hcap : S.length ≤ tsize0)
    (hacc : Hash.accepted (Hash.build tsize0 S).tsize = true)
    (g : RePair.Grammar) (T : Nat) (cls : List Nat) (offs : Nat → Nat)
    (st : Hash.StoresRPF (Hash.build tsize0 S) g T cls offs) (q : Str) (habs : q ∉ S) :
    Hash.locateRPF (Hash.build tsize0 S) g T cls offs q = some 0 := by
  have gd := Hash.goodDict_build tsize0 S hnd hcap hacc
  rw [Hash.locateRPF_eq gd g T cls offs st q, Hash.locate_absent gd q habs]

/-- The comparison itself: 0 exactly for the stored string. -/
theorem rp_compare_decides_equality (g : RePair.Grammar) (hwf : g.wf = true) (T : Nat) (syms rest : List Nat)
    (hv : ∀ x ∈ syms, x < g.terminals + g.rules.length) (s q : Str)
    (hexp : g.expand syms = Hash.natBytes s ++ [T]) (hTs : T ∉ Hash.natBytes s) :
    ∃ c, Hash.compareRP g T (syms ++ rest) (Hash.natBytes q) = some c ∧ (c = 0 ↔ s = q) :=
  Hash.compareRP_spec g hwf T syms rest hv s q hexp hTs

/-- Hash kinds: ID 0 and IDs above `n` extract nothing. -/
theorem hash_extract_bad_id (tsize0 : Nat) (S : List Str) (i : Nat) (h : i = 0 ∨ i > S.length) :
    Hash.extract (Hash.build tsize0 S) i = none :=
  Hash.extract_invalid _ i h

example : validDict [[0x61, 0x62], [0x62]] = true ∧ ([0x61] : Str) ∉ [[0x61, 0x62], [0x62]] := by decide

/-- The models this file's theorems are about were written against the current text of the C++
functions they mirror (`CSD/Generated/Bodies.lean` is re-extracted from the sources on every run,
`CSD/Model/SourceText.lean` is what was reviewed): an edit of one of these functions breaks this
obligation even if no generated input tells the behaviours apart. -/
theorem models_match_source_text :
    Generated.body_PFC_locate = SourceText.body_PFC_locate ∧
    Generated.body_PFC_locateBucket = SourceText.body_PFC_locateBucket ∧
    Generated.body_PFC_getHeader = SourceText.body_PFC_getHeader ∧
    Generated.body_PFC_decodeNextString = SourceText.body_PFC_decodeNextString ∧
    Generated.body_PFC_extract = SourceText.body_PFC_extract ∧
    Generated.body_bitwisehash = SourceText.body_bitwisehash ∧
    Generated.body_step_value = SourceText.body_step_value ∧
    Generated.body_nearest_prime = SourceText.body_nearest_prime ∧
    Generated.body_HashDAC_insert = SourceText.body_HashDAC_insert ∧
    Generated.body_HASHRPDAC_locate = SourceText.body_HASHRPDAC_locate ∧
    Generated.body_HASHRPDAC_extract = SourceText.body_HASHRPDAC_extract ∧
    Generated.body_Blocks_search_before = SourceText.body_Blocks_search_before ∧
    Generated.body_Blocks_locate = SourceText.body_Blocks_locate ∧
    Generated.body_RePair_compareDAC = SourceText.body_RePair_compareDAC ∧
    Generated.body_RePair_compareRule = SourceText.body_RePair_compareRule ∧
    Generated.body_RePair_compareRP = SourceText.body_RePair_compareRP ∧
    Generated.body_HASHRPF_locate = SourceText.body_HASHRPF_locate ∧
    Generated.body_Hash_insert = SourceText.body_Hash_insert := ⟨rfl, rfl, rfl, rfl, rfl, rfl, rfl, rfl, rfl, rfl, rfl, rfl, rfl, rfl, rfl, rfl, rfl, rfl⟩


/-! ### FMINDEX -/

/-- `StringDictionaryFMINDEX::locate`: for every valid `S`, every suffix array `L` of its text and every
index built from it, a string over `0x02 .. 0xFE` that is not a member is answered 0 — the backward search
ends with an empty interval or at a symbol outside the alphabet — and no structure is read out of bounds. -/
theorem fmindex_locate_absent {S : List Str} {L : List FM.Row} {d : FM.Dict} (hv : validDict S = true)
    (hd : FM.DictOK S L d) (q : Str) (hq : q.all validByte = true) (habs : q ∉ S) : d.locate q = some 0 := by
  rw [FM.locate_spec hv hd q hq, Spec.locate_not_mem habs]

/-- The hypotheses are met by the model's own build for every `S` and every sampling step. -/
theorem fmindex_hypotheses_hold (S : List Str) (step : Nat) :
    FM.DictOK S (FM.sortRows (FM.mkText S)) (FM.buildDict S step) := FM.dictOK_buildDict S step

example : validDict [[0x61, 0x62], [0x62]] = true ∧ (∃ L d, FM.DictOK [[0x61, 0x62], [0x62]] L d) ∧ ([0x61] : Str).all validByte = true :=
  ⟨by decide, ⟨_, _, FM.dictOK_buildDict _ 3⟩, by decide⟩


/-- `extract` of ID 0 or of an ID above the number of elements is NULL; the index is not touched. -/
theorem fmindex_extract_bad_id {S : List Str} {L : List FM.Row} {d : FM.Dict} (hd : FM.DictOK S L d) (id : Nat)
    (h : id = 0 ∨ id > S.length) : d.extract id = some none := FM.extract_bad_id hd id h

/-- The FM-index models were written against the current text of the C++ functions they mirror. -/
theorem fm_models_match_source_text :
    Generated.body_SSA_locate_id = SourceText.body_SSA_locate_id ∧
    Generated.body_SSA_locateP = SourceText.body_SSA_locateP ∧
    Generated.body_SSA_locate = SourceText.body_SSA_locate ∧
    Generated.body_SSA_extract_id = SourceText.body_SSA_extract_id ∧
    Generated.body_SSA_build_index = SourceText.body_SSA_build_index ∧
    Generated.body_SSA_build_bwt = SourceText.body_SSA_build_bwt ∧
    Generated.body_FMINDEX_ctor = SourceText.body_FMINDEX_ctor ∧
    Generated.body_FMINDEX_locate = SourceText.body_FMINDEX_locate ∧
    Generated.body_FMINDEX_extract = SourceText.body_FMINDEX_extract ∧
    Generated.body_FMINDEX_locatePrefix = SourceText.body_FMINDEX_locatePrefix ∧
    Generated.body_FMINDEX_locateSubstr = SourceText.body_FMINDEX_locateSubstr ∧
    Generated.body_FMINDEX_build_ssa = SourceText.body_FMINDEX_build_ssa :=
  ⟨rfl, rfl, rfl, rfl, rfl, rfl, rfl, rfl, rfl, rfl, rfl, rfl⟩


/-! ### RPFC -/

/-- `extract` of an ID outside `[1, n]` is NULL; the streams are not touched. -/
theorem rpfc_extract_bad_id {S : List Str} {d : RPFC.D} (hst : RPFC.Stores S d) (i : Nat)
    (h : i = 0 ∨ i > S.length) : RPFC.extract d i = some none := RPFC.extract_bad_id hst i h

/-- A NUL-free query that is not a member is answered 0 by RPFC, whatever grammar stores the buckets. -/
theorem rpfc_locate_absent {S : List Str} {d : RPFC.D} (hst : RPFC.Stores S d) (hv : validDict S = true)
    (q : Str) (hq : nulFree q) (habs : q ∉ S) : RPFC.locate d q = some 0 := by
  obtain ⟨hne, hn, hs, _⟩ := validDict_facts hv
  rw [RPFC.locate_stores hst q hne hn hq hs, Spec.locate_not_mem habs]

/-- The RPFC models were written against the current text of the C++ functions they mirror. -/
theorem rpfc_models_match_source_text :
    Generated.body_RPFC_decodeString = SourceText.body_RPFC_decodeString ∧
    Generated.body_RPFC_decodeSymbol = SourceText.body_RPFC_decodeSymbol ∧
    Generated.body_RPFC_getHeader = SourceText.body_RPFC_getHeader ∧
    Generated.body_RPFC_locateBucket = SourceText.body_RPFC_locateBucket ∧
    Generated.body_RPFC_locate = SourceText.body_RPFC_locate ∧
    Generated.body_RPFC_extract = SourceText.body_RPFC_extract ∧
    Generated.body_RPFC_locatePrefix = SourceText.body_RPFC_locatePrefix ∧
    Generated.body_RPFC_locateBoundaryBuckets = SourceText.body_RPFC_locateBoundaryBuckets ∧
    Generated.body_RPFC_searchPrefix = SourceText.body_RPFC_searchPrefix ∧
    Generated.body_RPFC_searchDistinctPrefix = SourceText.body_RPFC_searchDistinctPrefix :=
  ⟨rfl, rfl, rfl, rfl, rfl, rfl, rfl, rfl, rfl, rfl⟩

/-! ### RPDAC -/

/-- A NUL-free query that is not a member is answered 0 by RPDAC (binary search with
`extractStringAndCompareDAC`), over every well-founded grammar and sequences representing the dictionary, with
every comparison inside the pattern's buffer. -/
theorem rpdac_locate_absent (d : RPDAC.D) (S : List Str) (r : RPDAC.Represents d S) (hv : validDict S = true)
    (q : Str) (hq : nulFree q) (habs : q ∉ S) : RPDAC.locate d (RPDAC.bytesNat q) = some 0 := by
  obtain ⟨_, hn, hs, _⟩ := validDict_facts hv
  rw [RPDAC.locate_represents d S r hn hs q hq, Spec.locate_not_mem habs]

/-- `extract` of an ID outside `[1, n]` is NULL for RPDAC; the DAC is not accessed. -/
theorem rpdac_extract_bad_id (d : RPDAC.D) (S : List Str) (r : RPDAC.Represents d S) (i : Nat)
    (h : i = 0 ∨ i > S.length) : RPDAC.extract d i = none := by
  rw [RPDAC.extract_represents d S r i, dif_neg (by omega)]

end CSD.Props.C02
