/-
  C01 — Locate/extract round trip: IDs 1..n are a bijection onto the string set.

  Proved here for the exact model of the PFC kind (`CSD/Model/PFC.lean`, tied to
  `StringDictionaryPFC.cpp` by image bytes and answers on every run), for every
  valid input and every bucket size.  The other kinds are compared with the same
  specification by the correspondence streams (see DESIGN.md §8 C01, "partial").
-/
import CSD.Generated.Bodies
import CSD.Model.SourceText
import CSD.Lemmas.PFCMeta
import CSD.Lemmas.HashBlocks
import CSD.Lemmas.HashRP
import CSD.Lemmas.HashRPF
import CSD.Lemmas.CodecRoundTrip
import CSD.Lemmas.FM11
import CSD.Lemmas.RPFC6
import CSD.Lemmas.RPDAC2

namespace CSD.Props.C01
open CSD CSD.PFC

/-- `extract` refines the specification: ID `i ∈ [1,n]` gives the `i`-th string,
every read of the decoder inside the text (the result is `some`). -/
theorem pfc_extract_refines (b : Nat) (S : List Str) (hv : validDict S = true)
    (i : Nat) (h1 : 1 ≤ i) (h2 : i ≤ S.length) :
    PFC.extract (PFC.build b S) i = some (Spec.extract S i) := by
  obtain ⟨_, hn, _, _⟩ := validDict_facts hv
  rw [extract_build b S hn i h1 h2]
  simp [Spec.extract, show i ≠ 0 by omega]

/-- `locate` refines the specification for *every* NUL-free query. -/
theorem pfc_locate_refines (b : Nat) (S : List Str) (hv : validDict S = true)
    (q : Str) (hq : nulFree q) :
    PFC.locate (PFC.build b S) q = some (Spec.locate S q) := by
  obtain ⟨hne, hn, hs, _⟩ := validDict_facts hv
  exact locate_build b S q hne hn hq hs

/-- Round trip, member → ID → member: `locate s ∈ [1,n]` and `extract` of it is `s`. -/
theorem pfc_locate_then_extract (b : Nat) (S : List Str) (hv : validDict S = true)
    (s : Str) (hs : s ∈ S) :
    ∃ i, 1 ≤ i ∧ i ≤ S.length ∧ PFC.locate (PFC.build b S) s = some i ∧
      PFC.extract (PFC.build b S) i = some (some s) := by
  obtain ⟨hne, hn, hsort, _⟩ := validDict_facts hv
  obtain ⟨t, ht, hte⟩ := List.mem_iff_getElem.mp hs
  refine ⟨t + 1, by omega, by omega, ?_, ?_⟩
  · rw [locate_build b S s hne hn (hn s hs) hsort, ← hte, Spec.locate_getElem hsort t ht]
  · rw [extract_build b S hn (t + 1) (by omega) (by omega)]
    simp [List.getElem?_eq_getElem ht, hte]

/-- Round trip, ID → member → ID: `locate (extract i) = i` for every `i ∈ [1,n]`;
hence `extract` is a bijection from `[1,n]` onto `S`. -/
theorem pfc_extract_then_locate (b : Nat) (S : List Str) (hv : validDict S = true)
    (i : Nat) (h1 : 1 ≤ i) (h2 : i ≤ S.length) :
    ∃ s, s ∈ S ∧ PFC.extract (PFC.build b S) i = some (some s) ∧
      PFC.locate (PFC.build b S) s = some i := by
  obtain ⟨hne, hn, hsort, _⟩ := validDict_facts hv
  have hlt : i - 1 < S.length := by omega
  refine ⟨S[i - 1], List.getElem_mem _, ?_, ?_⟩
  · rw [extract_build b S hn i h1 h2, List.getElem?_eq_getElem hlt]
  · rw [locate_build b S _ hne hn (hn _ (List.getElem_mem _)) hsort, Spec.locate_getElem hsort _ hlt]
    congr 1; omega

/-! ### The hash kinds (model of `Hash/HashDAC.cpp` + `StringDictionaryHASHRPDAC`, exact: table size,
probe sequence, insertion order and rank-based IDs; tied to the code by exact ID comparison) -/

/-- Hash dictionary, member → ID → member: every one of the `n` distinct strings gets an ID in
`[1,n]` and `extract` of that ID gives it back — whatever the collisions. `hacc` says the table
size passed `nearest_prime`'s own trial division (the C++ loop returns only such sizes). -/
theorem hash_locate_then_extract (tsize0 : Nat) (S : List Str) (hnd : S.Nodup) (hcap : S.length ≤ tsize0)
    (hacc : Hash.accepted (Hash.build tsize0 S).tsize = true) (s : Str) (hs : s ∈ S) :
    1 ≤ Hash.locate (Hash.build tsize0 S) s ∧ Hash.locate (Hash.build tsize0 S) s ≤ S.length ∧
      Hash.extract (Hash.build tsize0 S) (Hash.locate (Hash.build tsize0 S) s) = some s := by
  have g := Hash.goodDict_build tsize0 S hnd hcap hacc
  obtain ⟨k, hk⟩ := List.mem_iff_getElem?.mp hs
  have hr := Hash.locate_range g k s hk
  exact ⟨hr.1, hr.2, Hash.extract_locate g k s hk⟩

/-- Hash dictionary, ID → member → ID: every ID in `[1,n]` extracts a member whose `locate` is that ID;
with the theorem above, IDs `1..n` are a bijection onto `S`. -/
theorem hash_extract_then_locate (tsize0 : Nat) (S : List Str) (hnd : S.Nodup) (hcap : S.length ≤ tsize0)
    (hacc : Hash.accepted (Hash.build tsize0 S).tsize = true) (i : Nat) (h1 : 1 ≤ i) (h2 : i ≤ S.length) :
    ∃ s, s ∈ S ∧ Hash.extract (Hash.build tsize0 S) i = some s ∧ Hash.locate (Hash.build tsize0 S) s = i := by
  have g := Hash.goodDict_build tsize0 S hnd hcap hacc
  obtain ⟨w, hw, hm, hl⟩ := Hash.locate_extract g i h1 h2
  exact ⟨w, hm, hw, hl⟩

/-- Distinct members never share an ID. -/
theorem hash_ids_injective (tsize0 : Nat) (S : List Str) (hnd : S.Nodup) (hcap : S.length ≤ tsize0)
    (hacc : Hash.accepted (Hash.build tsize0 S).tsize = true) (s s' : Str) (hs : s ∈ S) (hs' : s' ∈ S)
    (h : Hash.locate (Hash.build tsize0 S) s = Hash.locate (Hash.build tsize0 S) s') : s = s' :=
  Hash.locate_injective (Hash.goodDict_build tsize0 S hnd hcap hacc) s s' hs hs' h

/-- **HASHHF and HASHUFFDAC: the keys of the table are the Huffman-coded strings, and different strings
have different keys** — `StatCoder::encodeString` (bit-exact model) is injective on NUL-terminated strings
for every codeword table that lists the paths of a code tree. The hash theorems above then apply to the
list of coded keys (`S := keys`): IDs `1..n` are a bijection whatever the collisions. On every run the
driver re-encodes the strings with the exported codewords, rebuilds the table with the double-hashing model
and must predict every ID the real `locate` returns (`huffman-keys` stream). -/
theorem huffman_keys_distinct (t : Codes.Tree) (cwOf : Nat → Nat × Nat) (hb : ∀ s, (cwOf s).2 ≤ 32)
    (w w' : List Nat) (hm : StatCoder.TableMatches t cwOf w) (hm' : StatCoder.TableMatches t cwOf w')
    (hw : StatCoder.Terminated w) (hw' : StatCoder.Terminated w') (bytes : List Nat)
    (he : StatCoder.encodeString cwOf w 0 0 [] = some bytes) (he' : StatCoder.encodeString cwOf w' 0 0 [] = some bytes) :
    w = w' :=
  StatCoder.encodeString_injective t cwOf hb w w' hm hm' hw hw' bytes he he'

/-- `nearest_prime` hands the table a prime size (or 1), which is what makes the probe sequence
visit every cell; within the model's search bound the size is accepted or the bound was hit. -/
theorem hash_table_size_prime (tsize0 : Nat) (S : List Str)
    (hacc : Hash.accepted (Hash.build tsize0 S).tsize = true) :
    (Hash.build tsize0 S).tsize = 1 ∨ Hash.IsPrime (Hash.build tsize0 S).tsize :=
  Hash.accepted_prime_or_one hacc

/-- HASHRPDACBlocks, member → ID → member: the samples route a member to the part built from its
block, whose local ID is shifted by the number of strings in the earlier blocks; the result is in
`[1,n]` and `extract` of it (routed by the starting indexes) gives the string back. For every cut
size and every per-block table size that holds its block. -/
theorem blocks_locate_then_extract (cutSize : Nat) (tsizeOf : Nat → Nat) (S : List Str)
    (ok : Hash.PartsOK cutSize tsizeOf S) (s : Str) (hs : s ∈ S) :
    1 ≤ Hash.locateBlocks (Hash.buildBlocks cutSize tsizeOf S) s ∧
    Hash.locateBlocks (Hash.buildBlocks cutSize tsizeOf S) s ≤ S.length ∧
    Hash.extractBlocks (Hash.buildBlocks cutSize tsizeOf S)
      (Hash.locateBlocks (Hash.buildBlocks cutSize tsizeOf S) s) = some s :=
  Hash.blocks_locate_member ok s hs

/-- HASHRPDACBlocks, ID → member → ID. -/
theorem blocks_extract_then_locate (cutSize : Nat) (tsizeOf : Nat → Nat) (S : List Str)
    (ok : Hash.PartsOK cutSize tsizeOf S) (i : Nat) (h1 : 1 ≤ i) (h2 : i ≤ S.length) :
    ∃ s, s ∈ S ∧ Hash.extractBlocks (Hash.buildBlocks cutSize tsizeOf S) i = some s ∧
      Hash.locateBlocks (Hash.buildBlocks cutSize tsizeOf S) s = i :=
  Hash.blocks_extract_then_locate ok i h1 h2

/-- HASHRPDAC end to end (hash table + DAC positions + grammar): the real `locate`, which compares
the query with the string of a cell through `extractStringAndCompareDAC` at the DAC position given
by the cell's rank, returns for every member an ID in `[1,n]` whose `extract` is that member —
for every well-founded grammar and every symbol sequences that expand to the stored strings. -/
theorem hashrpdac_locate_then_extract (tsize0 : Nat) (S : List Str) (hnd : S.Nodup) (hcap : S.length ≤ tsize0)
    (hacc : Hash.accepted (Hash.build tsize0 S).tsize = true) (hS : ∀ s ∈ S, PFC.nulFree s)
    (g : RePair.Grammar) (seqs : List (List Nat)) (st : Hash.StoresRP (Hash.build tsize0 S) g seqs)
    (s : Str) (hs : s ∈ S) :
    ∃ id, Hash.locateRP (Hash.build tsize0 S) g seqs s = some id ∧ 1 ≤ id ∧ id ≤ S.length ∧
      Hash.extract (Hash.build tsize0 S) id = some s := by
  have gd := Hash.goodDict_build tsize0 S hnd hcap hacc
  obtain ⟨h1, h2, h3⟩ := hash_locate_then_extract tsize0 S hnd hcap hacc s hs
  exact ⟨_, Hash.locateRP_eq gd hS g seqs st s (hS s hs), h1, h2, h3⟩

/-- HASHRPF end to end (hash table + offsets into one Re-Pair coded symbol sequence + the comparison
`extractStringAndCompareRP` with its terminator sentinel): the real `locate` returns for every member an
ID in `[1,n]` whose `extract` is that member. -/
theorem hashrpf_locate_then_extract (tsize0 : Nat) (S : List Str) (hnd : S.Nodup) (hcap : S.length ≤ tsize0)
    (hacc : Hash.accepted (Hash.build tsize0 S).tsize = true)
    (g : RePair.Grammar) (T : Nat) (cls : List Nat) (offs : Nat → Nat)
    (st : Hash.StoresRPF (Hash.build tsize0 S) g T cls offs) (s : Str) (hs : s ∈ S) :
    ∃ id, Hash.locateRPF (Hash.build tsize0 S) g T cls offs s = some id ∧ 1 ≤ id ∧ id ≤ S.length ∧
      Hash.extract (Hash.build tsize0 S) id = some s := by
  have gd := Hash.goodDict_build tsize0 S hnd hcap hacc
  obtain ⟨h1, h2, h3⟩ := hash_locate_then_extract tsize0 S hnd hcap hacc s hs
  exact ⟨_, Hash.locateRPF_eq gd g T cls offs st s, h1, h2, h3⟩

/-- Non-vacuity of the Blocks hypotheses: four sorted strings cut into blocks of about 4 bytes. -/
example : Hash.PartsOK 4 (fun n => n + 1) [[0x61], [0x61, 0x62], [0x62], [0x63, 0x63]] :=
  ⟨sortedLt_of_sortedStrict _ (by decide), by decide +kernel⟩

/-- Non-vacuity of the hash hypotheses: three strings in a table requested for 3 (size 3 is accepted). -/
example : Hash.accepted (Hash.build 3 [[0x61], [0x62], [0x63]]).tsize = true ∧
    ([[0x61], [0x62], [0x63]] : List Str).Nodup := by decide +kernel

/-- Non-vacuity: a concrete valid dictionary (the hypotheses are satisfiable), and
what the theorems say about it. -/
example : validDict [[0x61, 0x62], [0x61, 0x62, 0x63], [0x62]] = true := by decide

/-- The models this file's theorems are about were written against the current text of the C++
functions they mirror (`CSD/Generated/Bodies.lean` is re-extracted from the sources on every run,
`CSD/Model/SourceText.lean` is what was reviewed): an edit of one of these functions breaks this
obligation even if no generated input tells the behaviours apart. -/
theorem models_match_source_text :
    Generated.body_PFC_ctor = SourceText.body_PFC_ctor ∧
    Generated.body_PFC_locate = SourceText.body_PFC_locate ∧
    Generated.body_PFC_locateBucket = SourceText.body_PFC_locateBucket ∧
    Generated.body_PFC_getHeader = SourceText.body_PFC_getHeader ∧
    Generated.body_PFC_decodeNextString = SourceText.body_PFC_decodeNextString ∧
    Generated.body_PFC_extract = SourceText.body_PFC_extract ∧
    Generated.body_bitwisehash = SourceText.body_bitwisehash ∧
    Generated.body_step_value = SourceText.body_step_value ∧
    Generated.body_nearest_prime = SourceText.body_nearest_prime ∧
    Generated.body_HashDAC_insert = SourceText.body_HashDAC_insert ∧
    Generated.body_HASHRPDAC_locate = SourceText.body_HASHRPDAC_locate ∧
    Generated.body_HASHRPDAC_extract = SourceText.body_HASHRPDAC_extract ∧
    Generated.body_Blocks_search_before = SourceText.body_Blocks_search_before ∧
    Generated.body_Blocks_locate = SourceText.body_Blocks_locate ∧
    Generated.body_Blocks_extract = SourceText.body_Blocks_extract ∧
    Generated.body_RePair_compareDAC = SourceText.body_RePair_compareDAC ∧
    Generated.body_RePair_compareRule = SourceText.body_RePair_compareRule ∧
    Generated.body_DAC_VLS_access = SourceText.body_DAC_VLS_access ∧
    Generated.body_RePair_compareRP = SourceText.body_RePair_compareRP ∧
    Generated.body_HASHRPF_locate = SourceText.body_HASHRPF_locate ∧
    Generated.body_Hash_insert = SourceText.body_Hash_insert := ⟨rfl, rfl, rfl, rfl, rfl, rfl, rfl, rfl, rfl, rfl, rfl, rfl, rfl, rfl, rfl, rfl, rfl, rfl, rfl, rfl, rfl⟩


/-! ### FMINDEX -/

/-- Both round trips for `StringDictionaryFMINDEX`, for every valid `S`, every suffix array of its text
and every index built from it (`FM.DictOK`; the suffix sorting algorithm is not modelled — any sorted
permutation of the suffixes will do): the `i`-th member is located at ID `i + 1`, and extracting ID `i + 1`
walks the BWT backwards from the separator after the member to the separator before it and returns
exactly its bytes; every read of `occ`, `alphabet` and the BWT is in bounds and the result buffer of
`maxlength + 2` bytes is not overrun. -/
theorem fmindex_round_trip {S : List Str} {L : List FM.Row} {d : FM.Dict} (hv : validDict S = true)
    (hd : FM.DictOK S L d) (hml : ∀ s ∈ S, s.length < d.maxlength) (i : Nat) (hi : i < S.length) :
    d.locate S[i] = some (i + 1) ∧ d.extract (i + 1) = some (some (FM.symsOf S[i])) := by
  refine ⟨?_, FM.extract_spec hv hd hml i hi⟩
  have hall : S[i].all validByte = true := by
    simp only [validDict, Bool.and_eq_true, List.all_eq_true] at hv
    have := hv.1.2 S[i] (List.getElem_mem hi)
    simp only [validStr, Bool.and_eq_true] at this
    exact this.2
  have hs : SortedLt S := sortedLt_of_sortedStrict S (by
    simp only [validDict, Bool.and_eq_true] at hv; exact hv.2)
  rw [FM.locate_spec hv hd S[i] hall, Spec.locate_getElem hs i hi]

/-- The hypotheses are those of the model's own build, for every `S` and sampling step. -/
theorem fmindex_hypotheses_hold (S : List Str) (step : Nat) :
    FM.DictOK S (FM.sortRows (FM.mkText S)) (FM.buildDict S step) ∧
    ∀ s ∈ S, s.length < (FM.buildDict S step).maxlength :=
  ⟨FM.dictOK_buildDict S step, FM.maxlength_buildDict S step⟩

/-- The FM-index models were written against the current text of the C++ functions they mirror. -/
theorem fm_models_match_source_text :
    Generated.body_SSA_locate_id = SourceText.body_SSA_locate_id ∧
    Generated.body_SSA_extract_id = SourceText.body_SSA_extract_id ∧
    Generated.body_SSA_build_index = SourceText.body_SSA_build_index ∧
    Generated.body_SSA_build_bwt = SourceText.body_SSA_build_bwt ∧
    Generated.body_FMINDEX_ctor = SourceText.body_FMINDEX_ctor ∧
    Generated.body_FMINDEX_locate = SourceText.body_FMINDEX_locate ∧
    Generated.body_FMINDEX_extract = SourceText.body_FMINDEX_extract ∧
    Generated.body_FMINDEX_build_ssa = SourceText.body_FMINDEX_build_ssa :=
  ⟨rfl, rfl, rfl, rfl, rfl, rfl, rfl, rfl⟩


/-! ### RPFC -/

/-- `StringDictionaryRPFC::extract` is exact over *any* grammar and symbol streams that store the
front-coded dictionary (`RPFC.Stores`: plain bucket headers; behind each, string by string, symbols that
expand to `VByte(lcp) ++ suffix ++ [255]`; shared prefixes below 16384, the limit recorded as K11): for
every ID in `[1, n]` it returns the member with that rank — `decodeString` reads exactly one stored
string, also when the VByte byte is `0xFF` (shared length 127), the value of the terminator mark — and no
symbol is read past the bucket's stream. Which rules Re-Pair chose does not matter. -/
theorem rpfc_extract_exact {S : List Str} {d : RPFC.D} (hst : RPFC.Stores S d) (i : Nat) (h1 : 1 ≤ i)
    (h2 : i ≤ S.length) : RPFC.extract d i = some (S[i - 1]?) := RPFC.extract_stores hst i h1 h2

/-- `StringDictionaryRPFC::locate` is exact over any grammar and streams that store the dictionary: the
rank of a member (so `locate (extract i) = i` and `extract (locate s) = s` with `rpfc_extract_exact`), found by
the binary search on the plain headers and the scan that decodes every string of the candidate bucket in
full, tests the shared length and resumes the comparison at the length shared with the query. -/
theorem rpfc_locate_exact {S : List Str} {d : RPFC.D} (hst : RPFC.Stores S d) (hv : validDict S = true)
    (q : Str) (hq : nulFree q) : RPFC.locate d q = some (Spec.locate S q) := by
  obtain ⟨hne, hn, hs, _⟩ := validDict_facts hv
  exact RPFC.locate_stores hst q hne hn hq hs

/-- The hypothesis is what the driver checks (an executable predicate) on every RPFC object exported by
the real code, before and after save/load: a successful check gives `Stores`. -/
theorem rpfc_hypothesis_is_checked {S : List Str} {d : RPFC.D} (h : RPFC.storesB S d = true) : RPFC.Stores S d :=
  RPFC.stores_of_storesB h

/-- `decodeString` on a stream that stores `cur` after `prev` returns the shared length, rebuilds `cur`
and leaves the stream at the next string. -/
theorem rpfc_decodeString_exact (d : RPFC.D) (prev cur : Str) (σ τ : List Nat)
    (hσ : d.g.expand σ = RPFC.entry d.maxchar prev cur) (hne : ∀ r ∈ σ, d.g.expandSym r ≠ [])
    (hl : PFC.lcp prev cur < 16384) (hsuf : cur.drop (PFC.lcp prev cur) ≠ [])
    (hmc : ∀ b ∈ cur, b.toNat ≠ d.maxchar) :
    RPFC.decodeString d prev (σ ++ τ) = some (PFC.lcp prev cur, cur, τ) :=
  RPFC.decodeString_spec d prev cur σ τ hσ hne hl hsuf hmc

/-- The hypotheses of `rpfc_decodeString_exact` are satisfiable: "ab" after "a" over the rule-free grammar. -/
example : ({ terminals := 256, rules := [] } : RePair.Grammar).expand [129, 98, 255] = RPFC.entry 255 [0x61] [0x61, 0x62] ∧
    PFC.lcp [0x61] [0x61, 0x62] < 16384 ∧ ([0x61, 0x62] : Str).drop (PFC.lcp [0x61] [0x61, 0x62]) ≠ [] := by
  refine ⟨?_, by decide, by decide⟩
  simp [RPFC.entry, RPFC.natsOf, PFC.lcp, VByte.encode, RePair.Grammar.expand, RePair.Grammar.expandSym, RePair.expandWith]

/-- The RPFC models were written against the current text of the C++ functions they mirror. -/
theorem rpfc_models_match_source_text :
    Generated.body_RPFC_decodeString = SourceText.body_RPFC_decodeString ∧
    Generated.body_RPFC_decodeSymbol = SourceText.body_RPFC_decodeSymbol ∧
    Generated.body_RPFC_getHeader = SourceText.body_RPFC_getHeader ∧
    Generated.body_RPFC_locateBucket = SourceText.body_RPFC_locateBucket ∧
    Generated.body_RPFC_locate = SourceText.body_RPFC_locate ∧
    Generated.body_RPFC_extract = SourceText.body_RPFC_extract ∧
    Generated.body_RPFC_locatePrefix = SourceText.body_RPFC_locatePrefix ∧
    Generated.body_RPFC_locateBoundaryBuckets = SourceText.body_RPFC_locateBoundaryBuckets ∧
    Generated.body_RPFC_searchPrefix = SourceText.body_RPFC_searchPrefix ∧
    Generated.body_RPFC_searchDistinctPrefix = SourceText.body_RPFC_searchDistinctPrefix :=
  ⟨rfl, rfl, rfl, rfl, rfl, rfl, rfl, rfl, rfl, rfl⟩

/-! ### Both round trips, stated as one bijection, for RPFC and RPDAC -/

/-- **RPFC round trip**: over any grammar and symbol streams that store the dictionary, the `i`-th member is
located at ID `i + 1` and ID `i + 1` extracts to exactly the `i`-th member — `extract` is a bijection from
`[1, n]` onto `S` with inverse `locate`. -/
theorem rpfc_round_trip {S : List Str} {d : RPFC.D} (hst : RPFC.Stores S d) (hv : validDict S = true)
    (i : Nat) (hi : i < S.length) :
    RPFC.locate d S[i] = some (i + 1) ∧ RPFC.extract d (i + 1) = some (some S[i]) := by
  obtain ⟨hne, hn, hs, _⟩ := PFC.validDict_facts hv
  refine ⟨?_, ?_⟩
  · rw [RPFC.locate_stores hst S[i] hne hn (hn _ (List.getElem_mem hi)) hs, Spec.locate_getElem hs i hi]
  · rw [RPFC.extract_stores hst (i + 1) (by omega) (by omega)]
    simp [List.getElem?_eq_getElem hi]

/-- **RPDAC round trip**: over any well-founded grammar and sequences representing the dictionary. -/
theorem rpdac_round_trip (d : RPDAC.D) (S : List Str) (r : RPDAC.Represents d S) (hv : validDict S = true)
    (i : Nat) (hi : i < S.length) :
    RPDAC.locate d (RPDAC.bytesNat S[i]) = some (i + 1) ∧ RPDAC.extract d (i + 1) = some (RPDAC.bytesNat S[i]) := by
  obtain ⟨_, hn, hs, _⟩ := PFC.validDict_facts hv
  refine ⟨?_, ?_⟩
  · rw [RPDAC.locate_represents d S r hn hs S[i] (hn _ (List.getElem_mem hi)), Spec.locate_getElem hs i hi]
  · rw [RPDAC.extract_represents d S r (i + 1), dif_pos ⟨by omega, by omega⟩]
    simp

end CSD.Props.C01
