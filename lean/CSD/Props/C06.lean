/-
  C06 — Persistence round trip: a saved image reloads to an equivalent dictionary.

  Proved over fragments regenerated from the sources on every run: every `load`
  reads exactly the field sequence the matching `save` writes (same order, same
  types, same count expressions, same nested classes), for the 12 dictionary
  classes with their own fields and for LogSequence, DAC_VLS, DAC_BVLS, Hash,
  HashDAC, the RePair grammar and BitSequenceRG; the generic loader selects the
  kind the image's tag names; `save` writes that tag. Equivalence of the answers of
  the reloaded object is compared on every query by the correspondence stream,
  through both loaders, with a trailer after the image (self-delimitation) and for
  a second generation (save → load → save → load).
-/
import CSD.Generated.Fields
import CSD.Generated.Dispatch

namespace CSD.Props.C06
open CSD.Generated

/-- `load` reads what `save` wrote, field by field, for every class with a save/load pair. -/
theorem load_reads_what_save_writes : saveFields = loadFields := rfl

/-- Every class of the list is covered (a class dropping out of the extraction would
make the previous theorem vacuous for it). -/
theorem all_classes_extracted :
    saveFields.map (·.1) = ["PFC", "RPFC", "HTFC", "HHTFC", "RPHTFC", "RPDAC", "HASHHF", "HASHRPF",
      "HASHUFFDAC", "HASHRPDAC", "BLOCKS", "FMINDEX", "LogSequence", "DAC_VLS", "DAC_BVLS", "HashDAC",
      "Hash", "RePairNoSeq", "BitSequenceRG"] := rfl

/-- The image starts with a tag, the element count and the maximal length follow
(Blocks: tag, maximal length, cut size, element count): what `numElements` and
`maxLength` of a reloaded object are read from. -/
theorem header_fields :
    (∀ k ∈ ["PFC", "RPFC", "HTFC", "HHTFC", "RPHTFC", "RPDAC", "HASHHF", "HASHRPF", "HASHUFFDAC", "HASHRPDAC", "FMINDEX"],
      ((saveFields.lookup k).getD []).take 3 = ["val uint32_t TAG", "val uint64_t elements", "val uint32_t maxlength"]) ∧
    ((saveFields.lookup "BLOCKS").getD []).take 4 =
      ["val uint32_t TAG", "val uint32_t maxlength", "val uint64_t cut_size", "val uint64_t strings_qty"] := by
  decide

/-- The generic loader dispatches every kind's tag to that kind's loader, which
accepts it, and `save` writes exactly that tag — on built and on loaded objects. -/
theorem generic_loader_round_trip (k : Kind) :
    dispatch k.tag = some k ∧ loaderGuard k = k.tag ∧ saveTags k = [k.tag] := by
  cases k <;> exact ⟨rfl, rfl, rfl⟩

example : (saveFields.lookup "PFC").isSome = true := by decide

end CSD.Props.C06
