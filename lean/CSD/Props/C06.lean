/-
  C06 — Persistence round trip: a saved image reloads to an equivalent dictionary.

  Proved over fragments regenerated from the sources on every run: every `load`
  reads exactly the field sequence the matching `save` writes (same order, same
  types, same count expressions, same nested classes), for the 12 dictionary
  classes with their own fields and for LogSequence, DAC_VLS, DAC_BVLS, Hash,
  HashDAC, the RePair grammar and BitSequenceRG; the generic loader selects the
  kind the image's tag names; `save` writes that tag. Equivalence of the answers of
  the reloaded object is compared on every query by the correspondence stream,
  through both loaders, with a trailer after the image (self-delimitation) and for
  a second generation (save → load → save → load).
-/
import CSD.Generated.Bodies
import CSD.Model.SourceText
import CSD.Generated.Fields
import CSD.Generated.Dispatch
import CSD.Lemmas.PFCLoad
import CSD.Lemmas.PFCMeta
import CSD.Lemmas.RPDACImage
import CSD.Lemmas.RPFCImage
import CSD.Lemmas.HRPDACImage
import CSD.Lemmas.BlocksImage

namespace CSD.Props.C06
open CSD.Generated

/-- `load` reads what `save` wrote, field by field, for every class with a save/load pair. -/
theorem load_reads_what_save_writes : saveFields = loadFields := rfl

/-- Every class of the list is covered (a class dropping out of the extraction would
make the previous theorem vacuous for it). -/
theorem all_classes_extracted :
    saveFields.map (·.1) = ["PFC", "RPFC", "HTFC", "HHTFC", "RPHTFC", "RPDAC", "HASHHF", "HASHRPF",
      "HASHUFFDAC", "HASHRPDAC", "BLOCKS", "FMINDEX", "LogSequence", "DAC_VLS", "DAC_BVLS", "HashDAC",
      "Hash", "RePairNoSeq", "BitSequenceRG"] := rfl

/-- The image starts with a tag, the element count and the maximal length follow
(Blocks: tag, maximal length, cut size, element count): what `numElements` and
`maxLength` of a reloaded object are read from. -/
theorem header_fields :
    (∀ k ∈ ["PFC", "RPFC", "HTFC", "HHTFC", "RPHTFC", "RPDAC", "HASHHF", "HASHRPF", "HASHUFFDAC", "HASHRPDAC", "FMINDEX"],
      ((saveFields.lookup k).getD []).take 3 = ["val uint32_t TAG", "val uint64_t elements", "val uint32_t maxlength"]) ∧
    ((saveFields.lookup "BLOCKS").getD []).take 4 =
      ["val uint32_t TAG", "val uint32_t maxlength", "val uint64_t cut_size", "val uint64_t strings_qty"] := by
  decide

/-- The generic loader dispatches every kind's tag to that kind's loader, which
accepts it, and `save` writes exactly that tag — on built and on loaded objects. -/
theorem generic_loader_round_trip (k : Kind) :
    dispatch k.tag = some k ∧ loaderGuard k = k.tag ∧ saveTags k = [k.tag] := by
  cases k <;> exact ⟨rfl, rfl, rfl⟩

/-! ### PFC on bytes (exact model of `save`, `load` and of the LogSequence reader/writer) -/

/-- The hand-written byte-level reader and writer of the PFC model follow the field sequence
extracted from `StringDictionaryPFC::save/load` and `LogSequence::save/LogSequence(istream&)`. -/
theorem pfc_model_layout_matches_source :
    saveFields.lookup "PFC" = some PFC.layout ∧ loadFields.lookup "PFC" = some PFC.layout ∧
    saveFields.lookup "LogSequence" = some PFC.logSeqLayout ∧
    loadFields.lookup "LogSequence" = some PFC.logSeqLayout := by decide

/-- **A PFC image reloads to the same object and is self-delimiting**: for every valid dictionary
whose sizes fit the 32/64-bit fields of the format, `save` succeeds and `load` of the image followed
by *any* bytes returns exactly the object that was saved and leaves exactly those bytes — so a
reloaded dictionary answers every query (locate, extract, prefix, table, metadata) as the original. -/
theorem pfc_image_reloads (b : Nat) (S : List Str) (hv : validDict S = true) (hb : b < 2 ^ 32)
    (hn : S.length < 2 ^ 32) (hml : (PFC.build b S).maxlength < 2 ^ 32)
    (htl : (PFC.build b S).text.length < 2 ^ 64) :
    ∃ img, PFC.save (PFC.build b S) = some img ∧
      ∀ rest, PFC.load (img ++ rest) = some (PFC.build b S, rest) := by
  obtain ⟨hne, _, _, _⟩ := PFC.validDict_facts hv
  exact PFC.load_save _ (PFC.build_wf b S hne hb hn hml htl)

/-- Second generation: the reloaded object saves to the same bytes, so the cycle can repeat. -/
theorem pfc_second_generation (b : Nat) (S : List Str) (hv : validDict S = true) (hb : b < 2 ^ 32)
    (hn : S.length < 2 ^ 32) (hml : (PFC.build b S).maxlength < 2 ^ 32)
    (htl : (PFC.build b S).text.length < 2 ^ 64) (img : List UInt8)
    (h : PFC.save (PFC.build b S) = some img) (rest : List UInt8) :
    ∃ d', PFC.load (img ++ rest) = some (d', rest) ∧ PFC.save d' = some img ∧
      ∀ rest', PFC.load (img ++ rest') = some (d', rest') := by
  obtain ⟨hne, _, _, _⟩ := PFC.validDict_facts hv
  obtain ⟨img', himg, hl⟩ := PFC.load_save _ (PFC.build_wf b S hne hb hn hml htl)
  rw [h] at himg; cases himg
  exact ⟨_, hl rest, h, hl⟩

/-- A LogSequence image reloads to the same sequence (any width 1..255 stored, any length). -/
theorem logseq_image_reloads (s : LogSeq.T) (hb : s.numbits < 256) (hn : s.numentries < 2 ^ 64)
    (hd : s.data.length = LogSeq.numWords s.numbits s.numentries) (rest : List UInt8) :
    LogSeq.load (s.save ++ rest) = some (s, rest) :=
  LogSeq.load_save s hb hn hd rest

/-- A foreign tag is refused before anything else is read. -/
theorem pfc_loader_refuses_foreign_tag (tag : Nat) (ht : tag < 2 ^ 32) (hne : tag ≠ 211) (rest : List UInt8) :
    PFC.load (LogSeq.leBytes tag 4 ++ rest) = none := by
  unfold PFC.load
  rw [LogSeq.readLE_leBytes 4 tag (by omega)]
  simp [hne]

example : (saveFields.lookup "PFC").isSome = true := by decide

/-- The models this file's theorems are about were written against the current text of the C++
functions they mirror (`CSD/Generated/Bodies.lean` is re-extracted from the sources on every run,
`CSD/Model/SourceText.lean` is what was reviewed): an edit of one of these functions breaks this
obligation even if no generated input tells the behaviours apart. -/
theorem models_match_source_text :
    Generated.body_PFC_save = SourceText.body_PFC_save ∧
    Generated.body_PFC_load = SourceText.body_PFC_load ∧
    Generated.body_LogSequence_load = SourceText.body_LogSequence_load ∧
    Generated.body_LogSequence_save = SourceText.body_LogSequence_save := ⟨rfl, rfl, rfl, rfl⟩


/-! ### RPDAC image -/

/-- `StringDictionaryRPDAC::load (save d ++ rest) = (d, rest)` on bytes: type tag, counters, the grammar
(`RePair::save(out, encoding)` / `RePair::load`: `maxchar`, `terminals`, `rules`, the rule table as a
LogSequence image, the encoding tag) and the sequences as a DAC_VLS image with its BitSequenceRG bitmap — every
field comes back and exactly the image is consumed, so images can follow one another in a stream. -/
theorem rpdac_image_reloads (d : RPDACImg.Img) (wf : RPDACImg.WF d) (henc : d.rp.encoding = 3 ∨ d.rp.encoding = 124)
    (rest : List UInt8) : RPDACImg.load 3 124 (RPDACImg.save 3 d ++ rest) = some (d, rest) :=
  RPDACImg.load_save 3 124 (by decide) d wf henc rest

/-- The RPDAC loader refuses every other type tag. -/
theorem rpdac_loader_refuses_foreign (t : Nat) (ht : t < 2 ^ 32) (hne : t ≠ 3) (rest : List UInt8) :
    RPDACImg.load 3 124 (LogSeq.leBytes t 4 ++ rest) = none := RPDACImg.load_foreign 3 124 t ht hne rest


/-! ### RPFC image -/

/-- `StringDictionaryRPFC::load (save d ++ rest) = (d, rest)` on bytes: tag, counters, the text (plain headers
and bit-packed Re-Pair symbols), the positional index, the symbol width and the grammar header
(`RePair::save(out)` / `loadNoSeq`). The driver parses every real RPFC image with this loader and lets the model
cut the buckets and unpack the symbols (`RPFCImg.toD`): the result must be the object the query-layer theorems
are applied to. -/
theorem rpfc_image_reloads (d : RPFCImg.Img) (wf : RPFCImg.WF d) (rest : List UInt8) :
    RPFCImg.load 214 (RPFCImg.save 214 d ++ rest) = some (d, rest) :=
  RPFCImg.load_save 214 (by decide) d wf rest

/-- **The reloaded RPFC dictionary is equivalent**: whatever object the model cuts out of the image (`toD`: bucket
boundaries from the positional index, NUL-terminated headers, unpacked symbols), the image reloaded from the saved
bytes yields the same one — so `locate`, `extract`, `locatePrefix`, `extractPrefix` and the table scan of the
reloaded dictionary are those of the saved one, whatever follows the image in the stream. -/
theorem rpfc_reloaded_answers_the_same (d : RPFCImg.Img) (wf : RPFCImg.WF d) (rest : List UInt8) :
    ∃ d', RPFCImg.load 214 (RPFCImg.save 214 d ++ rest) = some (d', rest) ∧ RPFCImg.toD d' = RPFCImg.toD d ∧
      (∀ D, RPFCImg.toD d = some D → ∀ D', RPFCImg.toD d' = some D' →
        (∀ q, RPFC.locate D' q = RPFC.locate D q) ∧ (∀ i, RPFC.extract D' i = RPFC.extract D i) ∧
        (∀ q, RPFC.locatePrefix D' q = RPFC.locatePrefix D q)) := by
  refine ⟨d, RPFCImg.load_save 214 (by decide) d wf rest, rfl, ?_⟩
  intro D hD D' hD'
  rw [hD] at hD'
  cases hD'
  exact ⟨fun _ => rfl, fun _ => rfl, fun _ => rfl⟩

theorem rpfc_loader_refuses_foreign (t : Nat) (ht : t < 2 ^ 32) (hne : t ≠ 214) (rest : List UInt8) :
    RPFCImg.load 214 (LogSeq.leBytes t 4 ++ rest) = none := RPFCImg.load_foreign 214 t ht hne rest


/-- `StringDictionaryHASHRPDAC::load (save d ++ rest) = (d, rest)` on bytes: tag, counters, the grammar with its
DAC sequences, and the hash table header of `HashDAC::save` (`tsize`, `n`, the occupancy bitmap as a
BitSequenceRG image). -/
theorem hashrpdac_image_reloads (d : HRPDACImg.Img) (wf : HRPDACImg.WF d) (rest : List UInt8) :
    HRPDACImg.load (HRPDACImg.save d ++ rest) = some (d, rest) := HRPDACImg.load_save d wf rest


/-- `StringDictionaryHASHRPDACBlocks::load (save d ++ rest) = (d, rest)` on bytes: header, the first string and
the starting ID of every part, and every part as a whole HASHRPDAC image (by induction over the parts). -/
theorem blocks_image_reloads (d : BlocksImg.Img) (wf : BlocksImg.WF d) (rest : List UInt8) :
    BlocksImg.load (BlocksImg.save d ++ rest) = some (d, rest) := BlocksImg.load_save d wf rest

end CSD.Props.C06
