/-
  C16 — Unsupported operations and unknown images fail safe.

  All theorems are about fragments translated from the sources on every run
  (`CSD/Generated/Dispatch.lean`, `Stubs.lean`): the switch of
  `StringDictionary::load`, every loader's tag guard, the tag `save` writes, and
  the shape of every operation body.
-/
import CSD.Generated.Dispatch
import CSD.Generated.Stubs
import CSD.Lemmas.FM17

namespace CSD.Props.C16
open CSD.Generated

/-- The generic loader selects the right kind for the tag of every kind. -/
theorem dispatch_known (k : Kind) : dispatch k.tag = some k := by
  cases k <;> rfl

/-- …and returns NULL for **every** other 32-bit (indeed every natural) tag. -/
theorem dispatch_unknown (t : Nat) (h : ∀ k : Kind, k.tag ≠ t) : dispatch t = none := by
  have h1 := h .PFC; have h2 := h .RPFC; have h3 := h .HTFC; have h4 := h .HHTFC
  have h5 := h .RPHTFC; have h6 := h .RPDAC; have h7 := h .HASHHF; have h8 := h .HASHRPF
  have h9 := h .HASHUFFDAC; have h10 := h .HASHRPDAC; have h11 := h .BLOCKS
  have h12 := h .FMINDEX; have h13 := h .XBW
  simp only [Kind.tag] at h1 h2 h3 h4 h5 h6 h7 h8 h9 h10 h11 h12 h13
  unfold dispatch
  repeat (rw [if_neg (by omega)])

/-- The generic loader never confuses kinds: it answers `k` only for `k`'s tag. -/
theorem dispatch_sound (t : Nat) (k : Kind) (h : dispatch t = some k) : t = k.tag := by
  by_cases hk : ∃ k' : Kind, k'.tag = t
  · obtain ⟨k', rfl⟩ := hk
    rw [dispatch_known] at h
    cases h; rfl
  · have := dispatch_unknown t (fun k' hk' => hk ⟨k', hk'⟩)
    rw [this] at h; cases h

/-- Each kind's own loader accepts exactly its own tag… -/
theorem loader_guard_own (k : Kind) : loaderGuard k = k.tag := by
  cases k <;> rfl

/-- …so it returns NULL when handed any other kind's image (tags are pairwise distinct). -/
theorem loader_rejects_foreign (k k' : Kind) (h : k ≠ k') : loaderGuard k ≠ k'.tag := by
  cases k <;> cases k' <;> first | (exact absurd rfl h) | decide

/-- `save` always writes the kind's own tag first, on built and on loaded objects
(every assignment to `type` in the class assigns that constant). -/
theorem save_writes_own_tag (k : Kind) : saveTags k = [k.tag] := by
  cases k <;> rfl

/-- Operations the property lists as not provided are stubs: they print a message
and return NULL / 0 without reading or writing any member of the dictionary. -/
theorem unsupported_are_stubs :
    (∀ k ∈ [Kind.HASHHF, .HASHRPF, .HASHUFFDAC, .HASHRPDAC, .BLOCKS],
      ∀ op ∈ [Op.locatePrefix, .locateSubstr, .locateRank, .extractPrefix, .extractSubstr, .extractRank],
        body k op = .stub) ∧
    (∀ k ∈ [Kind.PFC, .RPFC, .HTFC, .HHTFC, .RPHTFC, .RPDAC],
      ∀ op ∈ [Op.locateSubstr, .extractSubstr], body k op = .stub) ∧
    body .XBW .extractTable = .stub := by
  decide

/-- The rank operations of the order-preserving kinds are the identity on IDs:
`locateRank(k) = k`, `extractRank(k) = extract(k)` (used by C03). -/
theorem rank_ops_identity :
    ∀ k ∈ [Kind.PFC, .RPFC, .HTFC, .HHTFC, .RPHTFC, .RPDAC, .FMINDEX],
      body k .locateRank = .rankid ∧ body k .extractRank = .extractid := by
  decide


/-! ### FMINDEX without sampling -/

/-- `SSA::locate` on an index built without BWT sampling touches nothing and reports "no occurrences array":
the dictionary-level `locateSubstr` / `extractSubstr` refuse before calling it, and a caller that does call it
gets an empty answer instead of a walk over sampling structures that do not exist. -/
theorem fmindex_unsampled_locate_is_refused (ix : FM.Index) (h : ix.samplesuff = 0) (pat : List Nat) :
    FM.locateOccs ix pat = some none := by
  unfold FM.locateOccs; simp [h]

theorem fmindex_unsampled_locateSubstr_is_empty (d : FM.Dict) (h : d.ix.samplesuff = 0) (p : Str) :
    d.locateSubstr p = some [] := by
  unfold FM.Dict.locateSubstr
  rw [fmindex_unsampled_locate_is_refused d.ix h]

end CSD.Props.C16
