/-
  C04 — Prefix search is exact: precisely the members that start with the pattern.

  Proved: the specification-level fact every order-preserving kind relies on
  (matches are contiguous, so one ascending ID range describes them), and the
  ID-range iterator that carries the answer. The search algorithms themselves
  (three binary searches on headers + in-bucket scans) are compared with
  `Spec.prefixIds` by the correspondence stream: partial.
-/
import CSD.Lemmas.Prefix
import CSD.Lemmas.IdIter
import CSD.Lemmas.PFCMeta

namespace CSD.Props.C04
open CSD

/-- In a valid (strictly sorted) dictionary the members beginning with `p` are
consecutive: the IDs of a prefix search form one contiguous ascending range. -/
theorem prefix_matches_contiguous (S : List Str) (hv : validDict S = true) (p : Str) (i j k : Nat)
    (hij : i < j) (hjk : j < k) (hk : k < S.length)
    (hi : isPrefix p (S[i]'(by omega)) = true) (hk' : isPrefix p S[k] = true) :
    isPrefix p (S[j]'(by omega)) = true :=
  prefix_contiguous (PFC.validDict_facts hv).2.2.1 p i j k hij hjk hk hi hk'

/-- The iterator `locatePrefix` returns for a non-empty range `[left, right]`
yields exactly `left, left+1, …, right`: each ID once, ascending. -/
theorem id_range_iterator (left right : Nat) (h1 : 1 ≤ left) (h2 : left ≤ right) (h3 : right < 2 ^ 64) :
    IdIter.Contig.drain (right - left + 2) (IdIter.Contig.mk' left right)
      = (List.range (right - left + 1)).map (· + left) :=
  IdIter.contig_drain left right h1 h2 h3

/-- When nothing matches, the iterator built from `(NORESULT, NORESULT)` is empty. -/
theorem id_range_iterator_empty (fuel : Nat) :
    IdIter.Contig.drain fuel (IdIter.Contig.mk' 0 0) = [] :=
  IdIter.contig_empty fuel

/-- Full statement, not yet proved for the search algorithm of any kind
(`prefix_search_partial`): for every valid `S`, bucket size and non-empty pattern,
`locatePrefix (build b S) p = Spec.prefixIds S p` with all reads in bounds. -/
def PrefixSearchStatement (locatePrefix : List Str → Str → Option (List Nat)) : Prop :=
  ∀ S p, validDict S = true → p ≠ [] → locatePrefix S p = some (Spec.prefixIds S p)

example : Spec.prefixIds [[0x61, 0x62], [0x61, 0x62, 0x63], [0x62]] [0x61] = [1, 2] := by decide

end CSD.Props.C04
