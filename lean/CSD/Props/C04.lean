/-
  C04 — Prefix search is exact: precisely the members that start with the pattern.

  Proved: the specification-level fact every order-preserving kind relies on
  (matches are contiguous, so one ascending ID range describes them), and the
  ID-range iterator that carries the answer. The search algorithms themselves
  (three binary searches on headers + in-bucket scans) are compared with
  `Spec.prefixIds` by the correspondence stream: partial.
-/
import CSD.Generated.Bodies
import CSD.Model.SourceText
import CSD.Lemmas.Prefix
import CSD.Lemmas.IdIter
import CSD.Lemmas.PFCMeta
import CSD.Lemmas.RPDACPrefix4
import CSD.Lemmas.PFCPrefixD
import CSD.Lemmas.FM11
import CSD.Lemmas.RPFC9
import CSD.Lemmas.FM18
import CSD.Lemmas.PFCRange
import CSD.Lemmas.RPFC10
import CSD.Lemmas.RPDACIter

namespace CSD.Props.C04
open CSD

/-- In a valid (strictly sorted) dictionary the members beginning with `p` are
consecutive: the IDs of a prefix search form one contiguous ascending range. -/
theorem prefix_matches_contiguous (S : List Str) (hv : validDict S = true) (p : Str) (i j k : Nat)
    (hij : i < j) (hjk : j < k) (hk : k < S.length)
    (hi : isPrefix p (S[i]'(by omega)) = true) (hk' : isPrefix p S[k] = true) :
    isPrefix p (S[j]'(by omega)) = true :=
  prefix_contiguous (PFC.validDict_facts hv).2.2.1 p i j k hij hjk hk hi hk'

/-- The iterator `locatePrefix` returns for a non-empty range `[left, right]`
yields exactly `left, left+1, …, right`: each ID once, ascending. -/
theorem id_range_iterator (left right : Nat) (h1 : 1 ≤ left) (h2 : left ≤ right) (h3 : right < 2 ^ 64) :
    IdIter.Contig.drain (right - left + 2) (IdIter.Contig.mk' left right)
      = (List.range (right - left + 1)).map (· + left) :=
  IdIter.contig_drain left right h1 h2 h3

/-- When nothing matches, the iterator built from `(NORESULT, NORESULT)` is empty. -/
theorem id_range_iterator_empty (fuel : Nat) :
    IdIter.Contig.drain fuel (IdIter.Contig.mk' 0 0) = [] :=
  IdIter.contig_empty fuel

/-- **PFC prefix search is exact** (exact model of `StringDictionaryPFC::locatePrefix`:
`locateBoundaryBuckets` with its three binary searches on the headers, `searchPrefix` with its
shared-prefix shortcuts over the front-coded bucket, `searchDistinctPrefix`, the single-bucket and
multi-bucket paths and the ID arithmetic): for every valid dictionary, every bucket size and every
NUL-free pattern the answer is `(0,0)` when no member starts with the pattern and otherwise the ID range
`[lo, hi]` with member `i` (0-based) starting with the pattern iff `lo ≤ i + 1 ≤ hi`; every read stays
inside the text (the result is `some`). The contiguous-ID iterator above then enumerates exactly those IDs. -/
theorem pfc_prefix_search_exact (b : Nat) (S : List Str) (hv : validDict S = true) (q : Str) (hq : PFC.nulFree q) :
    ∃ lo hi, PFC.locatePrefix (PFC.build b S) q = some (lo, hi) ∧
      ((lo = 0 ∧ hi = 0 ∧ ∀ i (h : i < S.length), isPrefix q S[i] = false) ∨
       (1 ≤ lo ∧ lo ≤ hi ∧ hi ≤ S.length ∧
         ∀ i (h : i < S.length), (isPrefix q S[i] = true ↔ lo ≤ i + 1 ∧ i + 1 ≤ hi))) := by
  obtain ⟨hne, hn, hs, _⟩ := PFC.validDict_facts hv
  exact PFC.locatePrefix_build b S q hne hn hs hq

/-- **RPDAC prefix search is exact** (model of `StringDictionaryRPDAC::locatePrefix`: one binary search
for any match, one for the left boundary, one for the right boundary, each comparing through
`extractPrefixAndCompareDAC` / `expandRuleAndComparePrefixDAC`): for every valid dictionary, every
well-founded grammar and symbol sequences representing it, and every non-empty NUL-free pattern, the
returned ID range `[lo, hi]` contains exactly the members that start with the pattern — `(0,0)` iff there
is none — with every comparison inside the pattern's buffer. -/
theorem rpdac_prefix_search_exact (d : RPDAC.D) (S : List Str) (r : RPDAC.Represents d S)
    (hv : validDict S = true) (p : Str) (hp : PFC.nulFree p) (hne : p ≠ []) :
    ∃ lo hi, RPDAC.locatePrefix d (RPDAC.bytesNat p) = some (lo, hi) ∧
      ((lo = 0 ∧ hi = 0 ∧ ∀ id (h1 : 1 ≤ id) (h2 : id ≤ S.length), isPrefix p (S[id - 1]'(by omega)) = false) ∨
       (1 ≤ lo ∧ lo ≤ hi ∧ hi ≤ S.length ∧
         ∀ id (h1 : 1 ≤ id) (h2 : id ≤ S.length), (isPrefix p (S[id - 1]'(by omega)) = true ↔ lo ≤ id ∧ id ≤ hi))) := by
  obtain ⟨_, hn, hs, _⟩ := PFC.validDict_facts hv
  exact RPDAC.locatePrefix_represents d S r hn hs p hp hne

/-- The comparison the three searches use is `strncmp(stored, pattern, |pattern|)`. -/
theorem rpdac_prefix_compare_is_strncmp (g : RePair.Grammar) (hwf : g.wf = true) (syms : List Nat)
    (hval : ∀ s ∈ syms, s < g.terminals + g.rules.length) (s p : Str)
    (hexp : g.expand syms = RPDAC.bytesNat s) (hs : PFC.nulFree s) (hp : PFC.nulFree p) (hne : p ≠ []) :
    RPDAC.comparePrefixDAC g syms (RPDAC.bytesNat p) = some (scmp (s.take p.length) p) :=
  RPDAC.comparePrefixDAC_eq g hwf syms hval s p hexp hs hp hne

/-- The same statement in list form (kept for reference; the theorems above give it for PFC and RPDAC)
(`prefix_search_partial`): for every valid `S`, bucket size and non-empty pattern,
`locatePrefix (build b S) p = Spec.prefixIds S p` with all reads in bounds. -/
def PrefixSearchStatement (locatePrefix : List Str → Str → Option (List Nat)) : Prop :=
  ∀ S p, validDict S = true → p ≠ [] → locatePrefix S p = some (Spec.prefixIds S p)

example : Spec.prefixIds [[0x61, 0x62], [0x61, 0x62, 0x63], [0x62]] [0x61] = [1, 2] := by decide

/-- The prefix-search model was written against the current text of the C++ functions it mirrors. -/
theorem models_match_source_text :
    Generated.body_RPDAC_locatePrefix = SourceText.body_RPDAC_locatePrefix ∧
    Generated.body_RePair_comparePrefixDAC = SourceText.body_RePair_comparePrefixDAC ∧
    Generated.body_RePair_comparePrefixRule = SourceText.body_RePair_comparePrefixRule ∧
    Generated.body_PFC_locatePrefix = SourceText.body_PFC_locatePrefix ∧
    Generated.body_PFC_locateBoundaryBuckets = SourceText.body_PFC_locateBoundaryBuckets ∧
    Generated.body_PFC_searchPrefix = SourceText.body_PFC_searchPrefix ∧
    Generated.body_PFC_searchDistinctPrefix = SourceText.body_PFC_searchDistinctPrefix ∧
    Generated.body_longestCommonPrefix = SourceText.body_longestCommonPrefix ∧
    Generated.body_PFC_getHeader = SourceText.body_PFC_getHeader ∧
    Generated.body_PFC_decodeNextString = SourceText.body_PFC_decodeNextString := ⟨rfl, rfl, rfl, rfl, rfl, rfl, rfl, rfl, rfl, rfl⟩


/-! ### FMINDEX -/

/-- `StringDictionaryFMINDEX::locatePrefix`: the backward search of `\1 p` returns the block of separator
suffixes of the members that start with `p`; the limits `(l, r)` handed to the contiguous iterator satisfy
`Spec.prefixIds S p = [l, …, r]`, and `(0, 0)` (the empty iterator) iff no member starts with `p`. -/
theorem fmindex_prefix_search_exact {S : List Str} {L : List FM.Row} {d : FM.Dict} (hv : validDict S = true)
    (hd : FM.DictOK S L d) (p : Str) (hp : p.all validByte = true) (hne : p ≠ []) :
    ∃ l r, d.locatePrefix p = some (l, r) ∧
      ((Spec.prefixIds S p = [] ∧ l = 0 ∧ r = 0) ∨
       (Spec.prefixIds S p ≠ [] ∧ Spec.prefixIds S p = List.range' l (r + 1 - l) ∧ 1 ≤ l ∧ l ≤ r)) :=
  FM.locatePrefix_spec hv hd p hp hne

example : validDict [[0x61, 0x62], [0x61, 0x62, 0x63], [0x62]] = true ∧ (∃ L d, FM.DictOK [[0x61, 0x62], [0x61, 0x62, 0x63], [0x62]] L d) :=
  ⟨by decide, _, _, FM.dictOK_buildDict _ 2⟩

/-- The FM-index models were written against the current text of the C++ functions they mirror. -/
theorem fm_models_match_source_text :
    Generated.body_SSA_locate_id = SourceText.body_SSA_locate_id ∧
    Generated.body_SSA_locateP = SourceText.body_SSA_locateP ∧
    Generated.body_SSA_locate = SourceText.body_SSA_locate ∧
    Generated.body_SSA_extract_id = SourceText.body_SSA_extract_id ∧
    Generated.body_SSA_build_index = SourceText.body_SSA_build_index ∧
    Generated.body_SSA_build_bwt = SourceText.body_SSA_build_bwt ∧
    Generated.body_FMINDEX_ctor = SourceText.body_FMINDEX_ctor ∧
    Generated.body_FMINDEX_locate = SourceText.body_FMINDEX_locate ∧
    Generated.body_FMINDEX_extract = SourceText.body_FMINDEX_extract ∧
    Generated.body_FMINDEX_locatePrefix = SourceText.body_FMINDEX_locatePrefix ∧
    Generated.body_FMINDEX_locateSubstr = SourceText.body_FMINDEX_locateSubstr ∧
    Generated.body_FMINDEX_build_ssa = SourceText.body_FMINDEX_build_ssa :=
  ⟨rfl, rfl, rfl, rfl, rfl, rfl, rfl, rfl, rfl, rfl, rfl, rfl⟩


/-! ### RPFC -/

/-- `StringDictionaryRPFC::locatePrefix` is exact over any grammar and symbol streams that store the dictionary
(`RPFC.Stores`, checked on every exported object): `(0, 0)` when no member starts with the pattern, otherwise
the ID range `[lo, hi]` with member `i` (0-based) starting with the pattern iff `lo ≤ i + 1 ≤ hi`. Proved by
running `locateBoundaryBuckets`, `searchPrefix` and `searchDistinctPrefix` of RPFC in lockstep with those of
the plain front-coded dictionary built from the same strings (`RPFC.locatePrefix_sim`): both read the same
plain headers, and every `decodeString` step yields what the plain decoder yields. -/
theorem rpfc_prefix_search_exact {S : List Str} {d : RPFC.D} (hst : RPFC.Stores S d) (hv : validDict S = true)
    (q : Str) (hq : PFC.nulFree q) :
    ∃ lo hi, RPFC.locatePrefix d q = some (lo, hi) ∧ PFC.PrefixChar S q lo hi := by
  obtain ⟨hne, hn, hs, _⟩ := PFC.validDict_facts hv
  exact RPFC.locatePrefix_stores hst hne hn hs q hq

/-- The RPFC prefix-search model was written against the current text of the C++ functions it mirrors. -/
theorem rpfc_prefix_models_match_source_text :
    Generated.body_RPFC_decodeString = SourceText.body_RPFC_decodeString ∧
    Generated.body_RPFC_locatePrefix = SourceText.body_RPFC_locatePrefix ∧
    Generated.body_RPFC_locateBoundaryBuckets = SourceText.body_RPFC_locateBoundaryBuckets ∧
    Generated.body_RPFC_searchPrefix = SourceText.body_RPFC_searchPrefix ∧
    Generated.body_RPFC_searchDistinctPrefix = SourceText.body_RPFC_searchDistinctPrefix :=
  ⟨rfl, rfl, rfl, rfl, rfl⟩


/-- `StringDictionaryFMINDEX::extractPrefix`: NULL when no member starts with the pattern; otherwise the string
iterator opened on the range of `locatePrefix` drains to exactly the members that start with it, in ID order —
`#{s < p}` members are skipped and `#{p prefix of s}` are yielded. -/
theorem fmindex_extract_prefix_exact {S : List Str} {L : List FM.Row} {d : FM.Dict} (hv : validDict S = true)
    (hd : FM.DictOK S L d) (hml : ∀ s ∈ S, s.length < d.maxlength) (p : Str) (hp : p.all validByte = true) (hne : p ≠ []) :
    d.extractPrefix p =
      some (if S.countP (fun s => (FM.symsOf p).isPrefixOf (FM.symsOf s)) = 0 then none
            else some (((S.drop (S.countP (fun s => decide (FM.symsOf s < FM.symsOf p)))).take
                          (S.countP (fun s => (FM.symsOf p).isPrefixOf (FM.symsOf s)))).map FM.symsOf)) :=
  FM.extractPrefix_spec hv hd hml p hp hne

/-- **PFC `extractPrefix` is exact** (model of `StringDictionaryPFC::extractPrefix`: `locatePrefix`, then an
`IteratorDictStringPFC` opened at the in-bucket offset of the left limit — header copied, `offset − 1`
strings decoded — and drained over `right − left + 1` strings across bucket boundaries): NULL when no member
starts with the pattern, otherwise exactly the members that start with it, in order; every read stays inside
the text. For every valid dictionary, every bucket size and every NUL-free pattern. -/
theorem pfc_extract_prefix_exact (b : Nat) (S : List Str) (hv : validDict S = true) (q : Str) (hq : PFC.nulFree q) :
    PFC.extractPrefix (PFC.build b S) q =
      some (if S.filter (isPrefix q) = [] then none else some (S.filter (isPrefix q))) := by
  obtain ⟨hne, hn, hs, _⟩ := PFC.validDict_facts hv
  exact PFC.extractPrefix_build b S q hne hn hs hq

/-- Non-vacuity: a two-bucket dictionary whose matches straddle the bucket boundary. -/
example : PFC.extractPrefix (PFC.build 2 [[0x61], [0x61, 0x62], [0x61, 0x63], [0x62]]) [0x61] =
    some (some [[0x61], [0x61, 0x62], [0x61, 0x63]]) := by
  rw [pfc_extract_prefix_exact 2 _ (by decide) _ (by intro c hc; simp at hc; subst hc; decide)]
  decide

/-- The PFC range-scan model was written against the current text of the C++ functions it mirrors. -/
theorem pfc_range_models_match_source_text :
    Generated.body_PFC_extractPrefix = SourceText.body_PFC_extractPrefix ∧
    Generated.body_PFCIter_ctor = SourceText.body_PFCIter_ctor ∧
    Generated.body_PFCIter_next = SourceText.body_PFCIter_next ∧
    Generated.body_PFCIter_decodeNext = SourceText.body_PFCIter_decodeNext := ⟨rfl, rfl, rfl, rfl⟩

/-- **RPFC `extractPrefix` is exact** (model of `StringDictionaryRPFC::extractPrefix`: `locatePrefix`, then an
`IteratorDictStringRPFC` opened at the in-bucket offset of the left limit and drained over `right − left + 1`
strings, bucket after bucket): over every grammar and symbol streams that store the dictionary, NULL when no
member starts with the pattern, otherwise exactly the members that start with it, in order; no symbol is read
past a bucket's stream and every bucket change happens with the stream read to its last symbol. -/
theorem rpfc_extract_prefix_exact {S : List Str} {d : RPFC.D} (hst : RPFC.Stores S d) (hv : validDict S = true)
    (q : Str) (hq : PFC.nulFree q) :
    RPFC.extractPrefix d q = some (if S.filter (isPrefix q) = [] then none else some (S.filter (isPrefix q))) := by
  obtain ⟨hne, hn, hs, _⟩ := PFC.validDict_facts hv
  exact RPFC.extractPrefix_stores hst hne hn hs q hq

/-- The RPFC range-scan model was written against the current text of the C++ functions it mirrors. -/
theorem rpfc_range_models_match_source_text :
    Generated.body_RPFC_extractPrefix = SourceText.body_RPFC_extractPrefix ∧
    Generated.body_RPFCIter_ctor = SourceText.body_RPFCIter_ctor ∧
    Generated.body_RPFCIter_next = SourceText.body_RPFCIter_next ∧
    Generated.body_RPFCIter_decodeNext = SourceText.body_RPFCIter_decodeNext := ⟨rfl, rfl, rfl, rfl⟩

/-- The FMINDEX `extractPrefix` model was written against the current text of the C++ functions it mirrors. -/
theorem fm_extract_prefix_models_match_source_text :
    Generated.body_FMINDEX_extractPrefix = SourceText.body_FMINDEX_extractPrefix ∧
    Generated.body_FMIter_next = SourceText.body_FMIter_next := ⟨rfl, rfl⟩

/-- **RPDAC `extractPrefix` is exact** (model of `StringDictionaryRPDAC::extractPrefix`: the limits of
`locatePrefix`, then `IteratorDictStringRPDAC` with `processed = left − 1` — a `size_t` that wraps around for
the limits `(0, 0)` of an empty result — and `scanneable = right`): over every well-founded grammar and
sequences representing the dictionary the iterator drains to exactly the members that start with the pattern,
in order, and to nothing when there is none. -/
theorem rpdac_extract_prefix_exact (d : RPDAC.D) (S : List Str) (r : RPDAC.Represents d S)
    (hv : validDict S = true) (hlen : S.length < 2 ^ 64) (p : Str) (hp : PFC.nulFree p) (hne : p ≠ []) :
    RPDAC.extractPrefix d (RPDAC.bytesNat p) = some ((S.filter (isPrefix p)).map RPDAC.bytesNat) := by
  obtain ⟨_, hn, hs, _⟩ := PFC.validDict_facts hv
  exact RPDAC.extractPrefix_represents d S r hn hs hlen p hp hne

/-- The RPDAC iterator model was written against the current text of the C++ functions it mirrors. -/
theorem rpdac_iterator_models_match_source_text :
    Generated.body_RPDAC_extractPrefix = SourceText.body_RPDAC_extractPrefix ∧
    Generated.body_RPDAC_extractTable = SourceText.body_RPDAC_extractTable ∧
    Generated.body_RPDACIter_ctor = SourceText.body_RPDACIter_ctor ∧
    Generated.body_RPDACIter_next = SourceText.body_RPDACIter_next := ⟨rfl, rfl, rfl, rfl⟩

/-- **No match, no result** — the property's second sentence, spelled out: when no member begins with the
pattern, `locatePrefix` returns the limits `(0, 0)` (NORESULT) and `extractPrefix` produces no string — NULL for
PFC and RPFC, an iterator that is empty from the start for RPDAC — and none of them reads outside the dictionary
(every model result is `some`). For every bucket size, every storing / representing grammar. -/
theorem no_match_yields_nothing {S : List Str} (hv : validDict S = true) (b : Nat)
    {dR : RPFC.D} (hR : RPFC.Stores S dR) {dD : RPDAC.D} (hD : RPDAC.Represents dD S) (hlen : S.length < 2 ^ 64)
    (q : Str) (hq : PFC.nulFree q) (hne : q ≠ []) (hno : ∀ s ∈ S, isPrefix q s = false) :
    PFC.locatePrefix (PFC.build b S) q = some (0, 0) ∧ PFC.extractPrefix (PFC.build b S) q = some none ∧
    RPFC.locatePrefix dR q = some (0, 0) ∧ RPFC.extractPrefix dR q = some none ∧
    RPDAC.extractPrefix dD (RPDAC.bytesNat q) = some [] := by
  obtain ⟨hne', hn, hs, _⟩ := PFC.validDict_facts hv
  have hfil : S.filter (isPrefix q) = [] := by
    rw [List.filter_eq_nil_iff]
    intro a ha
    rw [hno a ha]; simp
  have hnoidx : ∀ lo hi, PFC.PrefixChar S q lo hi → lo = 0 ∧ hi = 0 := by
    intro lo hi h
    rcases h with ⟨h1, h2, _⟩ | ⟨h1, h2, h3, hiff⟩
    · exact ⟨h1, h2⟩
    · have hlt : lo - 1 < S.length := by omega
      have := (hiff (lo - 1) hlt).mpr (by omega)
      rw [hno _ (List.getElem_mem hlt)] at this
      cases this
  obtain ⟨lo, hi, hloc, hchar⟩ := PFC.locatePrefix_build b S q hne' hn hs hq
  obtain ⟨e1, e2⟩ := hnoidx lo hi hchar
  obtain ⟨lo', hi', hloc', hchar'⟩ := RPFC.locatePrefix_stores hR hne' hn hs q hq
  obtain ⟨e1', e2'⟩ := hnoidx lo' hi' hchar'
  subst e1 e2 e1' e2'
  refine ⟨hloc, ?_, hloc', ?_, ?_⟩
  · rw [PFC.extractPrefix_build b S q hne' hn hs hq, hfil]; rfl
  · rw [RPFC.extractPrefix_stores hR hne' hn hs q hq, hfil]; rfl
  · rw [RPDAC.extractPrefix_represents dD S hD hn hs hlen q hq hne, hfil]; rfl

end CSD.Props.C04
