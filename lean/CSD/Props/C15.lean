/-
  C15 — Metadata is truthful: exact element count, maxLength bounds every string.
-/
import CSD.Generated.Bodies
import CSD.Model.SourceText
import CSD.Lemmas.PFCMeta
import CSD.Lemmas.FM17
import CSD.Lemmas.RPDAC2
import CSD.Lemmas.RPFC3

namespace CSD.Props.C15
open CSD CSD.PFC

/-- `numElements` is the number of strings supplied. -/
theorem pfc_numElements (b : Nat) (S : List Str) : (PFC.build b S).elements = Spec.numElements S := rfl

/-- `maxLength` exceeds the length of every member (a `maxLength`-byte buffer
holds any member with its terminator)… -/
theorem pfc_maxLength_bounds (b : Nat) (S : List Str) (s : Str) (hs : s ∈ S) :
    s.length + 1 ≤ (PFC.build b S).maxlength :=
  maxlength_bounds b S s hs

/-- …and is at most the longest length plus one. -/
theorem pfc_maxLength_tight (b : Nat) (S : List Str) :
    (PFC.build b S).maxlength ≤ Spec.maxLen S + 1 :=
  maxlength_le b S

/-- Every string `extract` returns fits the buffer a caller sizes from `maxLength`. -/
theorem pfc_extract_fits (b : Nat) (S : List Str) (hv : validDict S = true)
    (i : Nat) (s : Str) (h : PFC.extract (PFC.build b S) i = some (some s)) :
    s.length + 1 ≤ (PFC.build b S).maxlength := by
  obtain ⟨_, hn, _, _⟩ := validDict_facts hv
  by_cases hr : 1 ≤ i ∧ i ≤ S.length
  · rw [extract_build b S hn i hr.1 hr.2] at h
    have hlt : i - 1 < S.length := by omega
    rw [List.getElem?_eq_getElem hlt] at h
    have : S[i - 1] = s := by simpa using h
    rw [← this]
    exact maxlength_bounds b S _ (List.getElem_mem _)
  · exfalso
    unfold PFC.extract at h
    simp only [build_elements] at h
    have : ¬ (i > 0 ∧ i ≤ S.length) := by omega
    simp [this] at h

example : (PFC.build 4 [[0x61], [0x62, 0x63]]).maxlength = 3 := by decide

/-- The models this file's theorems are about were written against the current text of the C++
functions they mirror (`CSD/Generated/Bodies.lean` is re-extracted from the sources on every run,
`CSD/Model/SourceText.lean` is what was reviewed): an edit of one of these functions breaks this
obligation even if no generated input tells the behaviours apart. -/
theorem models_match_source_text :
    Generated.body_PFC_ctor = SourceText.body_PFC_ctor ∧
    Generated.body_PFC_load = SourceText.body_PFC_load := ⟨rfl, rfl⟩


/-! ### FMINDEX -/

/-- The FM-index dictionary built by the model reports `numElements = n` and a `maxLength` above every member
(the constructor's `len + 1` convention), so `extract`'s buffer of `maxlength + 2` bytes holds every member. -/
theorem fmindex_metadata (S : List Str) (step : Nat) :
    (FM.buildDict S step).elements = S.length ∧ ∀ s ∈ S, s.length < (FM.buildDict S step).maxlength :=
  ⟨rfl, FM.maxlength_buildDict S step⟩

/-- RPFC and RPDAC report the number of strings supplied: every object that stores (represents) `S` — the
hypothesis re-validated on every exported object, built and reloaded — has `elements = |S|`, and the table scans
of C13 yield exactly that many strings. -/
theorem rpfc_rpdac_numElements {S : List Str} {dR : RPFC.D} (hR : RPFC.Stores S dR)
    {dD : RPDAC.D} (hD : RPDAC.Represents dD S) :
    dR.elements = Spec.numElements S ∧ dD.seqs.length = Spec.numElements S :=
  ⟨hR.elements, hD.len⟩

end CSD.Props.C15
