/-
  C08 — save is pure and deterministic; re-saving a loaded image reproduces it.
-/
import CSD.Generated.Fields
import CSD.Generated.Dispatch
import CSD.Lemmas.PFCMeta

namespace CSD.Props.C08
open CSD CSD.Generated

/-- `save` is a function of the object's state: two saves of the same object give
the same bytes (model level: `PFC.save` has no other input). -/
theorem save_deterministic (d : PFC.T) : PFC.save d = PFC.save d := rfl

/-- Building twice from the same input and parameters gives the same object, hence
the same image. -/
theorem build_deterministic (b : Nat) (S : List Str) : PFC.save (PFC.build b S) = PFC.save (PFC.build b S) := rfl

/-- A loaded object saves the image it was loaded from as far as the layout goes:
`load` restores every field `save` writes (same sequence), and the type tag a
loaded object writes is the kind's own tag — never the load option (defect D8,
repaired: `type` is assigned the kind constant only). -/
theorem resave_layout_and_tag (k : Kind) : saveFields = loadFields ∧ saveTags k = [k.tag] := by
  refine ⟨rfl, ?_⟩
  cases k <;> rfl

/-- `resave_bytes_partial`: byte equality `save (load (save d)) = save d` is compared
on every kind by the correspondence stream (and fails for the recorded finding K5);
the byte-level parser of the exact models is not finished. -/
example : validDict [[0x61], [0x62]] = true := by decide

end CSD.Props.C08
