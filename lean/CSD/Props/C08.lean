/-
  C08 — save is pure and deterministic; re-saving a loaded image reproduces it.
-/
import CSD.Generated.Bodies
import CSD.Model.SourceText
import CSD.Generated.Fields
import CSD.Generated.Dispatch
import CSD.Lemmas.PFCMeta
import CSD.Lemmas.PFCLoad
import CSD.Lemmas.RPDACImage
import CSD.Lemmas.RPFCImage

namespace CSD.Props.C08
open CSD CSD.Generated

/-- **Re-saving a loaded PFC image reproduces it byte for byte**, and the image itself is a function
of `(S, b)` alone (the model's `save ∘ build` has no other input — no clock, no allocator state). -/
theorem pfc_resave_identical (b : Nat) (S : List Str) (hv : validDict S = true) (hb : b < 2 ^ 32)
    (hn : S.length < 2 ^ 32) (hml : (PFC.build b S).maxlength < 2 ^ 32)
    (htl : (PFC.build b S).text.length < 2 ^ 64) :
    ∃ img, PFC.save (PFC.build b S) = some img ∧
      ∃ d', PFC.load img = some (d', []) ∧ PFC.save d' = some img := by
  obtain ⟨hne, _, _, _⟩ := PFC.validDict_facts hv
  obtain ⟨img, himg, hl⟩ := PFC.load_save _ (PFC.build_wf b S hne hb hn hml htl)
  refine ⟨img, himg, PFC.build b S, ?_, himg⟩
  have := hl []
  simpa using this

/- That two saves of one object give the same bytes, and that a save leaves the answers unchanged,
are statements about the mutable C++ object: in the model `save` is a function of an immutable value,
so they hold by construction and are not stated as theorems; the correspondence stream checks them on
the real objects (`save2`, queries before/after `save`). -/

/-- A loaded object saves the image it was loaded from as far as the layout goes:
`load` restores every field `save` writes (same sequence), and the type tag a
loaded object writes is the kind's own tag — never the load option (defect D8,
repaired: `type` is assigned the kind constant only). -/
theorem resave_layout_and_tag (k : Kind) : saveFields = loadFields ∧ saveTags k = [k.tag] := by
  refine ⟨rfl, ?_⟩
  cases k <;> rfl

/-- `resave_bytes_partial`: byte equality `save (load (save d)) = save d` is proved above for PFC
and compared on every other kind by the correspondence stream (it fails for the recorded finding K5). -/
example : validDict [[0x61], [0x62]] = true := by decide

/-- The models this file's theorems are about were written against the current text of the C++
functions they mirror (`CSD/Generated/Bodies.lean` is re-extracted from the sources on every run,
`CSD/Model/SourceText.lean` is what was reviewed): an edit of one of these functions breaks this
obligation even if no generated input tells the behaviours apart. -/
theorem models_match_source_text :
    Generated.body_PFC_save = SourceText.body_PFC_save ∧
    Generated.body_PFC_load = SourceText.body_PFC_load ∧
    Generated.body_LogSequence_load = SourceText.body_LogSequence_load ∧
    Generated.body_LogSequence_save = SourceText.body_LogSequence_save := ⟨rfl, rfl, rfl, rfl⟩


/-! ### RPDAC image -/

/-- Saving the RPDAC dictionary obtained from `load` writes the image it was loaded from, byte for byte:
`save (load (save d)) = save d` for every well-formed object (counters, grammar, rule table, DAC sequences,
bitmap). -/
theorem rpdac_resave_identical (d : RPDACImg.Img) (wf : RPDACImg.WF d) (henc : d.rp.encoding = 3 ∨ d.rp.encoding = 124) :
    (RPDACImg.load 3 124 (RPDACImg.save 3 d)).map (fun r => RPDACImg.save 3 r.1) = some (RPDACImg.save 3 d) := by
  have := RPDACImg.load_save 3 124 (by decide) d wf henc []
  rw [List.append_nil] at this
  rw [this]; rfl


/-- The same for RPFC: the image of a reloaded RPFC dictionary is the image it was loaded from. -/
theorem rpfc_resave_identical (d : RPFCImg.Img) (wf : RPFCImg.WF d) :
    (RPFCImg.load 214 (RPFCImg.save 214 d)).map (fun r => RPFCImg.save 214 r.1) = some (RPFCImg.save 214 d) := by
  have := RPFCImg.load_save 214 (by decide) d wf []
  rw [List.append_nil] at this
  rw [this]; rfl

end CSD.Props.C08
