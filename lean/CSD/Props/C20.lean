/-
  C20 — Re-Pair compression is lossless and never merges across string terminators.

  The compressor is modelled as a replacement system (which pair, which
  occurrences: free); the theorems hold for every run. The grammar and compacted
  sequence the real compressor produces are exported and re-validated by the Lean
  driver on every run (`repair` stream): rules well-founded and zero-free,
  expansion equal to the input, identifier width sufficient.
-/
import CSD.Generated.Bodies
import CSD.Model.SourceText
import CSD.Lemmas.RePair

namespace CSD.Props.C20
open CSD.RePair

/-- Expanding the final grammar and sequence reproduces the original sequence,
for every input sequence and every run of the compressor. -/
theorem repair_lossless {g g' : Grammar} {seq seq' : List Nat} (h : Run g seq g' seq')
    (hvalid : ∀ x ∈ seq, x < g.terminals + g.rules.length) : g'.expand seq' = g.expand seq :=
  expand_run h hvalid

/-- No rule contains the terminator 0, so no rule spans two strings and each
string remains individually addressable. -/
theorem repair_rules_zero_free {g g' : Grammar} {seq seq' : List Nat} (h : Run g seq g' seq')
    (hz : g.zeroFree = true) : g'.zeroFree = true :=
  zeroFree_run h hz

/-- Rules only refer to earlier symbols: rule expansion terminates. -/
theorem repair_rules_well_founded {g g' : Grammar} {seq seq' : List Nat} (h : Run g seq g' seq')
    (hw : g.wf = true) : g'.wf = true :=
  wf_run h hw

/-- The number of bits reported for a symbol (`bits(rules + terminals)`) suffices
for every terminal and rule identifier. -/
theorem repair_bits_suffice (g : Grammar) (x : Nat) (h : x ≤ g.rules.length + g.terminals) :
    x < 2 ^ bits (g.rules.length + g.terminals) :=
  id_fits _ x h

/-- Non-vacuity: one round on `a b a b 0` with the pair `(a, b)`. -/
example : Run ⟨256, []⟩ [97, 98, 97, 98, 0] ⟨256, [(97, 98)]⟩ [256, 256, 0] :=
  Run.step 97 98 (by decide) (by decide) (by decide) (by decide)
    (Repl.replace (Repl.replace (Repl.keep 0 Repl.nil))) (Run.refl _ _)

/-- The models this file's theorems are about were written against the current text of the C++
functions they mirror (`CSD/Generated/Bodies.lean` is re-extracted from the sources on every run,
`CSD/Model/SourceText.lean` is what was reviewed): an edit of one of these functions breaks this
obligation even if no generated input tells the behaviours apart. -/
theorem models_match_source_text :
    Generated.body_RePair_expandRule = SourceText.body_RePair_expandRule := rfl

end CSD.Props.C20
