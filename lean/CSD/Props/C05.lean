/-
  C05 — Substring search is exact: precisely the members that contain the pattern.

  Proved: for FMINDEX built with BWT sampling the whole of `locateSubstr` — backward search
  (`backward_search_exact`), the walk of every row of the block to a sampled row or to the separator in
  front of the member (`FM.walk_member`), sorting, and the duplicate-skipping iterator
  (`duplicates_iterator_exact`) — yields exactly `Spec.substrIds S p`
  (`fmindex_substring_search_exact`), for every valid `S`, every suffix array of its text and every
  sampling step > 0.  Suffix sorting itself and the wavelet tree under the BWT are not modelled (the
  exported BWT / occ / samples of every run are compared with the model's build by the `fm-layer`
  stream).  The XBW navigation is compared with `Spec.substrIds` by the correspondence stream only
  (partial: `SubstringSearchStatement` for XBW).
-/
import CSD.Lemmas.Dups
import CSD.Spec
import CSD.Lemmas.FM16
import CSD.Lemmas.FM19
import CSD.Generated.Bodies
import CSD.Model.SourceText

namespace CSD.Props.C05
open CSD CSD.Dups

/-- Each ID is reported once however many times the pattern occurs in the string:
over the sorted occurrence array with its sentinel the iterator yields the list
with adjacent repetitions removed, reading only cells `0 .. num_occ`. -/
theorem duplicates_iterator_exact (occs : List Nat) (hpos : ∀ v ∈ occs, v ≠ 0) :
    It.drain (occs.length + 1) ⟨occs ++ [0], 0, occs.length⟩ = some (dedupAdj occs) :=
  drain_all occs hpos

/-- Full statement, not proved for the index algorithms. -/
def SubstringSearchStatement (locateSubstr : List Str → Str → Option (List Nat)) : Prop :=
  ∀ S p, validDict S = true → p ≠ [] → locateSubstr S p = some (Spec.substrIds S p)

example : dedupAdj [2, 2, 5, 7, 7, 7] = [2, 5, 7] ∧ Spec.substrIds [[0x61, 0x62], [0x62]] [0x62] = [1, 2] := by
  decide


/-! ### FM-index backward search -/

/-- The backward search shared by `SSA::locate_id`, `SSA::locateP` and `SSA::locate` is total and exact:
for every text `T`, every suffix array `L` of it (`IsSA`: the rows of `T` sorted by suffix — the sorting
algorithm is not modelled), every index `ix` built from it and every non-empty pattern over `1 .. 255`,
the result is the block `[lo, lo + occs)` of the rows whose suffix starts with the pattern (`lo` rows are
below it), or reports that there is none; `occ`, `alphabet` and the BWT are read in bounds and no unsigned
subtraction wraps. -/
theorem backward_search_exact {T : List Nat} {L : List FM.Row} {ix : FM.Index} (hSA : FM.IsSA T L)
    (hB : FM.Built T L ix) (pat : List Nat) (hne : pat ≠ []) (hall : ∀ c ∈ pat, c ≠ 0 ∧ c < 256) :
    ∃ res, FM.bsearch ix pat = some res ∧ FM.BSpec L pat res :=
  FM.bsearch_spec hSA hB pat hne hall

/-- The number of rows in that block is the number of occurrences of the pattern in the text. -/
theorem block_size_is_occurrence_count {T : List Nat} {L : List FM.Row} (hSA : FM.IsSA T L) (P : List Nat) :
    FM.occs L P = FM.occurrences P T := FM.occs_eq_occurrences hSA P

/-- `StringDictionaryFMINDEX::locateSubstr` is exact: for every valid `S`, every suffix array `L` of its
text, every index built from it with a BWT sampling step `> 0` (`FM.DictOK`, `FM.BuiltS`) and every
non-empty pattern over `0x02 .. 0xFE`, the IDs the iterator yields are exactly the IDs of the members
that contain the pattern — each once, ascending — however many times it occurs in a member; every row of
the block is resolved by the LF walk to the member it lies in, through a sampled row or through the
separator in front of the member; no structure is read out of bounds and the walk terminates. -/
theorem fmindex_substring_search_exact {S : List Str} {L : List FM.Row} {d : FM.Dict} (hv : validDict S = true)
    (hd : FM.DictOK S L d) (hS : FM.BuiltS (FM.mkText S) L d.ix) (p : Str) (hp : p.all validByte = true)
    (hne : p ≠ []) : d.locateSubstr p = some (Spec.substrIds S p) :=
  FM.locateSubstr_spec hv hd hS p hp hne

/-- **`StringDictionaryFMINDEX::extractSubstr` is exact** (`SSA::locate`, `std::sort`, the sentinel `0` behind
the last ID, then `IteratorDictStringFMINDEXDuplicates`: `extract_id` of `ids[processed]`, then
`do processed++ while (ids[processed-1] == ids[processed])`): NULL when no member contains the pattern;
otherwise the strings of exactly the members that contain it, each once however often it occurs, in ID order.
The duplicate-skipping loop stops at the sentinel because no ID is 0 (an ID 0 is a fault of the model), and
every `extract_id` stays inside the index and its result buffer. -/
theorem fmindex_extract_substr_exact {S : List Str} {L : List FM.Row} {d : FM.Dict} (hv : validDict S = true)
    (hd : FM.DictOK S L d) (hS : FM.BuiltS (FM.mkText S) L d.ix) (hml : ∀ s ∈ S, s.length < d.maxlength)
    (p : Str) (hp : p.all validByte = true) (hne : p ≠ []) :
    d.extractSubstr p =
      some (if Spec.substrIds S p = [] then none
            else some ((Spec.substrIds S p).map fun id => FM.symsOf (S[id - 1]?.getD []))) :=
  FM.extractSubstr_spec hv hd hS hml p hp hne

/-- **No member contains the pattern: the result is empty** — `locateSubstr` yields no ID and `extractSubstr`
returns the NULL iterator, with every read in bounds. -/
theorem fmindex_absent_pattern_yields_nothing {S : List Str} {L : List FM.Row} {d : FM.Dict} (hv : validDict S = true)
    (hd : FM.DictOK S L d) (hS : FM.BuiltS (FM.mkText S) L d.ix) (hml : ∀ s ∈ S, s.length < d.maxlength)
    (p : Str) (hp : p.all validByte = true) (hne : p ≠ []) (hno : ∀ s ∈ S, isSubstr p s = false) :
    d.locateSubstr p = some [] ∧ d.extractSubstr p = some none := by
  have hnil : Spec.substrIds S p = [] := by
    apply List.eq_nil_iff_forall_not_mem.mpr
    intro id hid
    obtain ⟨i, hi, _, hsub⟩ := (FM.mem_substrIds S p id).mp hid
    rw [hno _ (List.getElem_mem hi)] at hsub
    cases hsub
  refine ⟨?_, ?_⟩
  · rw [FM.locateSubstr_spec hv hd hS p hp hne, hnil]
  · rw [FM.extractSubstr_spec hv hd hS hml p hp hne, hnil]; rfl

/-- The sorted-and-deduplicated list of the model is what the duplicate-skipping iterator yields. -/
theorem fmindex_dedup_is_the_iterator (l : List Nat) : FM.dedupAdj l = CSD.Dups.dedupAdj l := FM.dedupAdj_eq_dups l

/-- The hypotheses hold for the model's own build, for every `S` and every step `> 0`. -/
theorem fmindex_substring_hypotheses_hold (S : List Str) (step : Nat) (h : 0 < step) :
    FM.DictOK S (FM.sortRows (FM.mkText S)) (FM.buildDict S step) ∧
    FM.BuiltS (FM.mkText S) (FM.sortRows (FM.mkText S)) (FM.buildDict S step).ix :=
  ⟨FM.dictOK_buildDict S step, FM.builtS_buildDict S step h⟩

/-- Both hypotheses hold for what the model builds from any text. -/
theorem backward_search_hypotheses_hold (T : List Nat) (step : Nat) :
    FM.IsSA T (FM.sortRows T) ∧ FM.Built T (FM.sortRows T) (FM.buildIndex T (FM.sortRows T) step) :=
  ⟨FM.isSA_sortRows T, FM.built_buildIndex step⟩

example : FM.occurrences [97, 98] (FM.mkText [[0x61, 0x62], [0x62, 0x61, 0x62]]) = 2 := by decide

/-- The FM-index models were written against the current text of the C++ functions they mirror. -/
theorem fm_models_match_source_text :
    Generated.body_SSA_locate_id = SourceText.body_SSA_locate_id ∧
    Generated.body_SSA_locateP = SourceText.body_SSA_locateP ∧
    Generated.body_SSA_locate = SourceText.body_SSA_locate ∧
    Generated.body_SSA_extract_id = SourceText.body_SSA_extract_id ∧
    Generated.body_SSA_build_index = SourceText.body_SSA_build_index ∧
    Generated.body_SSA_build_bwt = SourceText.body_SSA_build_bwt ∧
    Generated.body_FMINDEX_ctor = SourceText.body_FMINDEX_ctor ∧
    Generated.body_FMINDEX_locate = SourceText.body_FMINDEX_locate ∧
    Generated.body_FMINDEX_extract = SourceText.body_FMINDEX_extract ∧
    Generated.body_FMINDEX_locatePrefix = SourceText.body_FMINDEX_locatePrefix ∧
    Generated.body_FMINDEX_locateSubstr = SourceText.body_FMINDEX_locateSubstr ∧
    Generated.body_FMINDEX_build_ssa = SourceText.body_FMINDEX_build_ssa ∧
    Generated.body_FMINDEX_extractSubstr = SourceText.body_FMINDEX_extractSubstr ∧
    Generated.body_FMIterDup_next = SourceText.body_FMIterDup_next :=
  ⟨rfl, rfl, rfl, rfl, rfl, rfl, rfl, rfl, rfl, rfl, rfl, rfl, rfl, rfl⟩

end CSD.Props.C05
