/-
  C05 — Substring search is exact: precisely the members that contain the pattern.

  Proved: the part of `locateSubstr` that turns the sorted list of occurrence IDs
  into the answer — `IteratorDictIDDuplicates` — yields each distinct ID once and
  never reads beyond the sentinel cell. The FM-index backward search / LF walk and
  the XBW navigation are compared with `Spec.substrIds` by the correspondence
  stream (partial: `substring_search_partial`).
-/
import CSD.Lemmas.Dups
import CSD.Spec

namespace CSD.Props.C05
open CSD CSD.Dups

/-- Each ID is reported once however many times the pattern occurs in the string:
over the sorted occurrence array with its sentinel the iterator yields the list
with adjacent repetitions removed, reading only cells `0 .. num_occ`. -/
theorem duplicates_iterator_exact (occs : List Nat) (hpos : ∀ v ∈ occs, v ≠ 0) :
    It.drain (occs.length + 1) ⟨occs ++ [0], 0, occs.length⟩ = some (dedupAdj occs) :=
  drain_all occs hpos

/-- Full statement, not proved for the index algorithms. -/
def SubstringSearchStatement (locateSubstr : List Str → Str → Option (List Nat)) : Prop :=
  ∀ S p, validDict S = true → p ≠ [] → locateSubstr S p = some (Spec.substrIds S p)

example : dedupAdj [2, 2, 5, 7, 7, 7] = [2, 5, 7] ∧ Spec.substrIds [[0x61, 0x62], [0x62]] [0x62] = [1, 2] := by
  decide

end CSD.Props.C05
