/-
  C05 — Substring search is exact: precisely the members that contain the pattern.

  Proved: the part of `locateSubstr` that turns the sorted list of occurrence IDs
  into the answer — `IteratorDictIDDuplicates` — yields each distinct ID once and
  never reads beyond the sentinel cell. The FM-index backward search / LF walk and
  the XBW navigation are compared with `Spec.substrIds` by the correspondence
  stream (partial: `substring_search_partial`).
-/
import CSD.Lemmas.Dups
import CSD.Spec
import CSD.Lemmas.FM11
import CSD.Generated.Bodies
import CSD.Model.SourceText

namespace CSD.Props.C05
open CSD CSD.Dups

/-- Each ID is reported once however many times the pattern occurs in the string:
over the sorted occurrence array with its sentinel the iterator yields the list
with adjacent repetitions removed, reading only cells `0 .. num_occ`. -/
theorem duplicates_iterator_exact (occs : List Nat) (hpos : ∀ v ∈ occs, v ≠ 0) :
    It.drain (occs.length + 1) ⟨occs ++ [0], 0, occs.length⟩ = some (dedupAdj occs) :=
  drain_all occs hpos

/-- Full statement, not proved for the index algorithms. -/
def SubstringSearchStatement (locateSubstr : List Str → Str → Option (List Nat)) : Prop :=
  ∀ S p, validDict S = true → p ≠ [] → locateSubstr S p = some (Spec.substrIds S p)

example : dedupAdj [2, 2, 5, 7, 7, 7] = [2, 5, 7] ∧ Spec.substrIds [[0x61, 0x62], [0x62]] [0x62] = [1, 2] := by
  decide


/-! ### FM-index backward search -/

/-- The backward search shared by `SSA::locate_id`, `SSA::locateP` and `SSA::locate` is total and exact:
for every text `T`, every suffix array `L` of it (`IsSA`: the rows of `T` sorted by suffix — the sorting
algorithm is not modelled), every index `ix` built from it and every non-empty pattern over `1 .. 255`,
the result is the block `[lo, lo + occs)` of the rows whose suffix starts with the pattern (`lo` rows are
below it), or reports that there is none; `occ`, `alphabet` and the BWT are read in bounds and no unsigned
subtraction wraps. -/
theorem backward_search_exact {T : List Nat} {L : List FM.Row} {ix : FM.Index} (hSA : FM.IsSA T L)
    (hB : FM.Built T L ix) (pat : List Nat) (hne : pat ≠ []) (hall : ∀ c ∈ pat, c ≠ 0 ∧ c < 256) :
    ∃ res, FM.bsearch ix pat = some res ∧ FM.BSpec L pat res :=
  FM.bsearch_spec hSA hB pat hne hall

/-- The number of rows in that block is the number of occurrences of the pattern in the text. -/
theorem block_size_is_occurrence_count {T : List Nat} {L : List FM.Row} (hSA : FM.IsSA T L) (P : List Nat) :
    FM.occs L P = FM.occurrences P T := FM.occs_eq_occurrences hSA P

/-- Both hypotheses hold for what the model builds from any text. -/
theorem backward_search_hypotheses_hold (T : List Nat) (step : Nat) :
    FM.IsSA T (FM.sortRows T) ∧ FM.Built T (FM.sortRows T) (FM.buildIndex T (FM.sortRows T) step) :=
  ⟨FM.isSA_sortRows T, FM.built_buildIndex step⟩

example : FM.occurrences [97, 98] (FM.mkText [[0x61, 0x62], [0x62, 0x61, 0x62]]) = 2 := by decide

/-- The FM-index models were written against the current text of the C++ functions they mirror. -/
theorem fm_models_match_source_text :
    Generated.body_SSA_locate_id = SourceText.body_SSA_locate_id ∧
    Generated.body_SSA_locateP = SourceText.body_SSA_locateP ∧
    Generated.body_SSA_locate = SourceText.body_SSA_locate ∧
    Generated.body_SSA_extract_id = SourceText.body_SSA_extract_id ∧
    Generated.body_SSA_build_index = SourceText.body_SSA_build_index ∧
    Generated.body_SSA_build_bwt = SourceText.body_SSA_build_bwt ∧
    Generated.body_FMINDEX_ctor = SourceText.body_FMINDEX_ctor ∧
    Generated.body_FMINDEX_locate = SourceText.body_FMINDEX_locate ∧
    Generated.body_FMINDEX_extract = SourceText.body_FMINDEX_extract ∧
    Generated.body_FMINDEX_locatePrefix = SourceText.body_FMINDEX_locatePrefix ∧
    Generated.body_FMINDEX_locateSubstr = SourceText.body_FMINDEX_locateSubstr ∧
    Generated.body_FMINDEX_build_ssa = SourceText.body_FMINDEX_build_ssa :=
  ⟨rfl, rfl, rfl, rfl, rfl, rfl, rfl, rfl, rfl, rfl, rfl, rfl⟩

end CSD.Props.C05
