/-
  C14 — Queries are pure: no hidden state, caller's pattern left intact.
-/
import CSD.Model.Api
import CSD.Generated.RPCompare

namespace CSD.Props.C14
open CSD.Api

variable {D Q A Item : Type} (answer : D → Q → A) (items : D → Q → List Item)

/-- No API call changes the dictionary. -/
theorem dict_immutable (s : Sys D Item) (op : Op Q) : (step answer items s op).1.dict = s.dict := by
  cases op with
  | query q => rfl
  | openIter q => rfl
  | next k =>
    simp only [step]
    split <;> rfl
  | save => rfl

/-- The answer to a query depends on the dictionary and the query only — not on
which calls came before, nor on how many iterators are open: after any history
`ops`, `query q` answers `answer dict q`. -/
theorem answer_history_free (s : Sys D Item) (ops : List (Op Q)) (q : Q) :
    (step answer items (ops.foldl (fun st op => (step answer items st op).1) s) (.query q)).2
      = some (.inl (answer s.dict q)) := by
  have hd : (ops.foldl (fun st op => (step answer items st op).1) s).dict = s.dict := by
    induction ops generalizing s with
    | nil => rfl
    | cons op ops ih => simp only [List.foldl_cons]; rw [ih, dict_immutable]
  show some (Sum.inl (answer (ops.foldl (fun st op => (step answer items st op).1) s).dict q)) = _
  rw [hd]

/-- Advancing one iterator leaves every other open iterator untouched. -/
theorem iterators_independent (s : Sys D Item) (k j : Nat) (hjk : j ≠ k) :
    (step answer items s (.next k : Op Q)).1.iters[j]? = s.iters[j]? := by
  simp only [step]
  split
  · simp [List.getElem?_set_ne (Ne.symm hjk)]
  · rfl

/-- The caller's pattern buffer is restored on **every** path of the repaired
`extractStringAndCompareRP` (match, mismatch inside a rule, mismatch on a terminal,
end of the symbols): if the call returns, the buffer holds the bytes it held before. -/
theorem pattern_restored (syms : List Sym) (buf : List UInt8) (strLen : Nat) (maxchar : UInt8)
    (hterm : buf[strLen]? = some 0) (c : Int) (buf' : List UInt8)
    (h : compareRP false syms buf strLen maxchar = some (c, buf')) : buf' = buf := by
  unfold compareRP at h
  simp only at h
  cases hl : loopRP false syms (buf.set strLen maxchar) strLen 0 with
  | none => rw [hl] at h; cases h
  | some r =>
    obtain ⟨c', via⟩ := r
    rw [hl] at h
    simp only [Option.some.injEq, Prod.mk.injEq] at h
    -- with earlyReturn = false every exit goes through the epilogue
    have hvia : ∀ (syms : List Sym) (b : List UInt8) (pos : Nat) (c : Int) (v : Bool),
        loopRP false syms b strLen pos = some (c, v) → v = true := by
      intro syms
      induction syms with
      | nil => intro b pos c v h; simp [loopRP] at h; exact h.2
      | cons sym rest ih =>
        intro b pos c v h
        simp only [loopRP] at h
        split at h
        · simp at h; exact h.2
        · cases sym with
          | rule e =>
            simp only at h
            split at h
            · cases h
            · split at h
              · simp at h; exact h.2
              · exact ih _ _ _ _ h
          | term t =>
            simp only at h
            split at h
            · cases h
            · split at h
              · simp at h; exact h.2
              · exact ih _ _ _ _ h
    have := hvia syms _ 0 c' via hl
    subst this
    simp only [↓reduceIte] at h
    rw [← h.2, List.set_set]
    apply List.ext_getElem?
    intro i
    by_cases hi : i = strLen
    · subst hi
      rcases Nat.lt_or_ge i buf.length with hlt | hge
      · rw [List.getElem?_set_self hlt, hterm]
      · rw [List.getElem?_eq_none (by simpa using hge)] at hterm; cases hterm
    · rw [List.getElem?_set_ne (Ne.symm hi)]

/-- The original code (early `return` on a terminal mismatch) does **not** restore
the buffer: after a failed comparison the terminator holds `maxchar` (defect D9,
repaired in /repo; kept so that a return of the old behaviour is recognised). -/
theorem unrepaired_pattern_not_restored :
    ∃ syms buf strLen maxchar c buf', compareRP true syms buf strLen maxchar = some (c, buf') ∧
      buf[strLen]? = some 0 ∧ buf' ≠ buf :=
  ⟨[.term 0x62], [0x61, 0], 1, 0x7b, 1, [0x61, 0x7b], by decide, by decide, by decide⟩

/-- The model with `earlyReturn = false` is the code that is there now: no `return`
between the sentinel write and the restore, the restore precedes the final return,
and no other routine of RePair.cpp writes through a `str` parameter (`expandRule`
writes its *output* buffer). -/
theorem model_is_current_code :
    CSD.Generated.rpEarlyReturns = 0 ∧ CSD.Generated.rpRestores = true ∧
    CSD.Generated.rpPatternWriters = ["RePair::expandRule", "RePair::extractStringAndCompareRP"] :=
  ⟨rfl, rfl, rfl⟩

example : compareRP false [.term 0x62] [0x61, 0] 1 0x7b = some (1, [0x61, 0]) := by decide

end CSD.Props.C14
