/-
  C09 — Parallel block build is deterministic for any thread count and schedule.
-/
import CSD.Lemmas.Blocks
import CSD.Generated.PoolOps
import CSD.Lemmas.BlocksImage

namespace CSD.Props.C09
open CSD CSD.Pool CSD.Blocks

/-- Blocks appear in input order and partition the input: concatenating them gives
the input back, and none is empty — for every cut size. -/
theorem cut_partitions (c : Nat) (S : List Str) :
    (cut c S).flatten = S ∧ ∀ b ∈ cut c S, b ≠ [] :=
  ⟨cut_flatten c S, cut_nonempty c S⟩

/-- Every block is complete before the constructor returns, and the `parts`
vector — hence the saved image, which is a function of the cut and of the parts —
is the same for every number of workers ≥ 1 and every schedule: when
`wait_workers` has returned, slot `i` holds the part built from block `i` alone. -/
theorem parts_schedule_independent {α : Type} (build : List Str → α) (c : Nat) (S : List Str)
    {n : Nat} (hn : 0 < n) {s : State}
    (h : Reachable n (List.range (cut c S).length) s) (hd : s.prod = .done) :
    partsOf build (cut c S) s.ran = (cut c S).map (fun b => some (build b)) := by
  apply partsOf_complete
  intro i hi
  have := exactly_once_at_termination hn h hd i
  have hpos : 0 < List.count i (List.range (cut c S).length) :=
    List.count_pos_iff.mpr (List.mem_range.mpr hi)
  exact List.count_pos_iff.mp (by omega)

/-- Two runs with different worker counts and different schedules end with the
same parts. -/
theorem parts_equal_across_runs {α : Type} (build : List Str → α) (c : Nat) (S : List Str)
    {n₁ n₂ : Nat} (h1 : 0 < n₁) (h2 : 0 < n₂) {s₁ s₂ : State}
    (r1 : Reachable n₁ (List.range (cut c S).length) s₁) (d1 : s₁.prod = .done)
    (r2 : Reachable n₂ (List.range (cut c S).length) s₂) (d2 : s₂.prod = .done) :
    partsOf build (cut c S) s₁.ran = partsOf build (cut c S) s₂.ran := by
  rw [parts_schedule_independent build c S h1 r1 d1, parts_schedule_independent build c S h2 r2 d2]

/-- The protocol the theorems are about is the one in the source now: the
synchronisation skeleton of the pool and of the Blocks constructor (slot
reservation and slot fill under `m`, completion wait, stop, join) extracted on
this run equals the one the model was written against. -/
theorem blocks_protocol_matches_source : CSD.Generated.poolOps = sourceShape := rfl

example : cut 3 [[0x61], [0x62, 0x63], [0x64]] = [[[0x61], [0x62, 0x63]], [[0x64]]] := by decide


/-- The image of a block dictionary is a function of its fields alone (`BlocksImg.save`), and those fields are
recovered from it (`load ∘ save = id`): two builds whose parts, first strings and starting IDs agree write the
same bytes, whatever produced them. The driver parses the image of every build (`blocks-image`) and checks that
the parts partition the input in order. -/
theorem blocks_image_determined_by_fields (d₁ d₂ : BlocksImg.Img) (h : d₁ = d₂) : BlocksImg.save d₁ = BlocksImg.save d₂ := by
  rw [h]

theorem blocks_fields_determined_by_image (d₁ d₂ : BlocksImg.Img) (w₁ : BlocksImg.WF d₁) (w₂ : BlocksImg.WF d₂)
    (h : BlocksImg.save d₁ = BlocksImg.save d₂) : d₁ = d₂ := by
  have h1 := BlocksImg.load_save d₁ w₁ []
  have h2 := BlocksImg.load_save d₂ w₂ []
  rw [h] at h1
  rw [h1] at h2
  simpa using h2

end CSD.Props.C09
