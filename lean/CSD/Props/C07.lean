/-
  C07 — Memory safety on valid input across build, query, save, load and destroy.

  What a model can carry is the index arithmetic: the exact models read through
  `Option`-valued accessors (`none` = outside the allocation), so "the result is
  `some`" is "every read was in bounds"; and the growth checks of the
  constructors are arithmetic facts. The C++ runtime (object lifetime, allocator,
  the unmodelled components) is monitored by ASan/UBSan on every correspondence
  run of every property (partial).
-/
import CSD.Lemmas.HashBuild
import CSD.Lemmas.RPDACPrefix4
import CSD.Lemmas.DAC
import CSD.Generated.Bodies
import CSD.Model.SourceText
import CSD.Lemmas.PFCIter
import CSD.Lemmas.LogSeq
import CSD.Lemmas.Dups
import CSD.Lemmas.FM19
import CSD.Lemmas.PFCRange
import CSD.Lemmas.RPFC10

namespace CSD.Props.C07
open CSD CSD.PFC

/-- Every PFC query on a valid dictionary stays inside the text: locate (of any
NUL-free query), extract (of any ID) and the table scan all return `some`. -/
theorem pfc_reads_in_bounds (b : Nat) (S : List Str) (hv : validDict S = true) :
    (∀ q, nulFree q → (PFC.locate (PFC.build b S) q).isSome) ∧
    (∀ i, (PFC.extract (PFC.build b S) i).isSome) ∧
    (PFC.table (PFC.build b S)).isSome := by
  obtain ⟨hne, hn, hs, _⟩ := validDict_facts hv
  refine ⟨?_, ?_, ?_⟩
  · intro q hq; rw [locate_build b S q hne hn hq hs]; rfl
  · intro i
    by_cases h : 1 ≤ i ∧ i ≤ S.length
    · rw [extract_build b S hn i h.1 h.2]; rfl
    · unfold PFC.extract
      simp only [build_elements]
      have : ¬ (i > 0 ∧ i ≤ S.length) := by omega
      simp [this]
  · rw [table_build b S hne hn]; rfl

theorem vbyte_length_le (c : Nat) : (VByte.encode c).length ≤ c + 1 := by
  induction c using Nat.strongRecOn with
  | _ c ih =>
    unfold VByte.encode
    by_cases hc : c > 127
    · simp only [hc, ↓reduceDIte, List.length_cons]
      have := ih (c / 128) (by omega)
      omega
    · simp [hc]

/-- Buffer growth keeps pace: an internal string takes at most `len + 2` bytes
(VByte of the lcp, the suffix, the terminator) and a header `len + 1`, both within
the `2·len + 2` the repaired growth check reserves. -/
theorem pfc_bytes_per_string (prev cur : Str) :
    (encInternal prev cur).length ≤ cur.length + 2 ∧ (encInternal prev cur).length ≤ 2 * cur.length + 2 := by
  have h1 := vbyte_length_le (lcp prev cur)
  have h2 := lcp_le_right prev cur
  simp only [encInternal, List.length_append, List.length_drop, List.length_cons, List.length_nil]
  omega

/-- The original check reserved `2·len`: one byte short for a one-character string
(defect D3, repaired in /repo). -/
theorem pfc_unrepaired_check_too_small : ∃ prev cur : Str, (encInternal prev cur).length > 2 * cur.length :=
  ⟨[0x61], [0x62], by
    have : VByte.encode 0 = [128] := by rw [VByte.encode]; simp
    simp [encInternal, lcp, this]⟩

/-- LogSequence never touches a word outside its allocation for an index below
`numentries`, and the ID iterator with duplicates never reads past its sentinel. -/
theorem containers_in_bounds :
    (∀ w n idx, idx < n → idx * w + w ≤ 64 * (LogSeq.mk w n).data.length) ∧
    (∀ occs : List Nat, (∀ v ∈ occs, v ≠ 0) →
      (Dups.It.drain (occs.length + 1) ⟨occs ++ [0], 0, occs.length⟩).isSome) := by
  refine ⟨?_, ?_⟩
  · intro w n idx h
    simp only [LogSeq.mk, List.length_replicate]
    exact LogSeq.numWords_enough w n idx h
  · intro occs h; rw [Dups.drain_all occs h]; rfl

example : validDict [[0x61], [0x62]] = true := by decide

/-- Hash kinds: every probe of `insert` / `locate` addresses a cell of the table
(`(hval + i·h2) % tsize < tsize`), whatever the string and the probe number. -/
theorem hash_probe_in_bounds (m : Nat) (hm : 0 < m) (w : Str) (i : Nat) : Hash.pr m w i < m :=
  Hash.pr_lt m hm w i

/-- DAC_VLS: `access` of every stored position reads only inside `levels`, the bitmap, `levelsIndex` and
`rankLevels` (a read outside is `none` in the model; the result is `some`). -/
theorem dac_access_in_bounds (L : List (List Nat)) (hall : ∀ s ∈ L, s ≠ []) (i : Nat) (hi : i < L.length) :
    (DAC.access (DAC.build L) (i + 1)).isSome = true := by
  rw [DAC.access_build L i hi hall]; rfl

/-- Re-Pair comparisons (`extractStringAndCompareDAC`, `extractPrefixAndCompareDAC`): every read of the
caller's pattern stays inside `pattern ++ NUL` (a read outside is `none`; the results are `some`). -/
theorem rpdac_compare_in_bounds (g : RePair.Grammar) (hwf : g.wf = true) (syms : List Nat)
    (hval : ∀ s ∈ syms, s < g.terminals + g.rules.length) (s q : Str)
    (hexp : g.expand syms = RPDAC.bytesNat s) (hs : PFC.nulFree s) (hq : PFC.nulFree q) :
    (RPDAC.compareDAC g syms (RPDAC.bytesNat q)).isSome = true ∧
    (q ≠ [] → (RPDAC.comparePrefixDAC g syms (RPDAC.bytesNat q)).isSome = true) := by
  constructor
  · rw [RPDAC.compareDAC_eq g hwf syms hval s q hexp hs hq]; rfl
  · intro hne
    rw [RPDAC.comparePrefixDAC_eq g hwf syms hval s q hexp hs hq hne]; rfl

/-- The models this file's theorems are about were written against the current text of the C++
functions they mirror (`CSD/Generated/Bodies.lean` is re-extracted from the sources on every run,
`CSD/Model/SourceText.lean` is what was reviewed): an edit of one of these functions breaks this
obligation even if no generated input tells the behaviours apart. -/
theorem models_match_source_text :
    Generated.body_PFC_ctor = SourceText.body_PFC_ctor ∧
    Generated.body_PFC_locate = SourceText.body_PFC_locate ∧
    Generated.body_PFC_locateBucket = SourceText.body_PFC_locateBucket ∧
    Generated.body_PFC_getHeader = SourceText.body_PFC_getHeader ∧
    Generated.body_PFC_decodeNextString = SourceText.body_PFC_decodeNextString ∧
    Generated.body_PFC_extract = SourceText.body_PFC_extract ∧
    Generated.body_LogSequence_get_field = SourceText.body_LogSequence_get_field ∧
    Generated.body_LogSequence_set_field = SourceText.body_LogSequence_set_field ∧
    Generated.body_LogSequence_vector_ctor = SourceText.body_LogSequence_vector_ctor := ⟨rfl, rfl, rfl, rfl, rfl, rfl, rfl, rfl, rfl⟩

/-- **The string iterators stay inside their structures.** In the models a read outside the text, the symbol
stream, the result array or the index is the result `none`; for every valid dictionary and every ID range the
range scans of PFC (any bucket size) and RPFC (any storing grammar) — opened at any in-bucket offset, across
bucket boundaries — and the duplicate-skipping iterator of FMINDEX `extractSubstr` (any suffix array, any sampling
step > 0) return `some`: no such read happens. -/
theorem string_iterators_in_bounds {S : List Str} (hv : validDict S = true) (b : Nat)
    {dR : RPFC.D} (hR : RPFC.Stores S dR)
    {L : List FM.Row} {dF : FM.Dict} (hF : FM.DictOK S L dF) (hFS : FM.BuiltS (FM.mkText S) L dF.ix)
    (hml : ∀ s ∈ S, s.length < dF.maxlength)
    (left right : Nat) (h1 : 1 ≤ left) (h2 : left ≤ right) (h3 : right ≤ S.length)
    (p : Str) (hp : p.all validByte = true) (hne : p ≠ []) :
    (PFC.scanRange (PFC.build b S) left right).isSome ∧ (RPFC.scanRange dR left right).isSome ∧
    (dF.extractSubstr p).isSome := by
  obtain ⟨_, hn, _, _⟩ := PFC.validDict_facts hv
  refine ⟨?_, ?_, ?_⟩
  · rw [PFC.scanRange_build b S hn left right h1 h2 h3]; rfl
  · rw [RPFC.scanRange_stores hR left right h1 h2 h3]; rfl
  · rw [FM.extractSubstr_spec hv hF hFS hml p hp hne]; rfl

end CSD.Props.C07
