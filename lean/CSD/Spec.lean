/-
  CSD/Spec.lean — the specification every dictionary kind is compared with.

  A dictionary *is* a strictly sorted list of byte strings.  Everything here is
  executable (the driver prints these answers) and small enough to be read in a
  few minutes; the property theorems in `CSD/Props` relate the models of the
  C++ code to these definitions.
-/
namespace CSD

/-- A byte string (without its C terminator). -/
abbrev Str := List UInt8

/-- `strcmp`-style three-way comparison on unsigned bytes: negative / zero /
positive as an `Int` (the C++ code only looks at the sign). The end of a string
compares like a NUL byte, i.e. below every other byte. -/
def scmp : Str → Str → Int
  | [], [] => 0
  | [], b :: _ => - (b.toNat : Int)
  | a :: _, [] => (a.toNat : Int)
  | a :: as, b :: bs => if a = b then scmp as bs else (a.toNat : Int) - (b.toNat : Int)

/-- Strict lexicographic order on unsigned bytes. -/
def slt (a b : Str) : Bool := scmp a b < 0

/-- `p` is a prefix of `s` (executable). -/
def isPrefix : Str → Str → Bool
  | [], _ => true
  | _ :: _, [] => false
  | a :: as, b :: bs => a == b && isPrefix as bs

/-- `p` occurs in `s` as a contiguous substring (executable). -/
def isSubstr (p : Str) : Str → Bool
  | [] => p.isEmpty
  | s@(_ :: t) => isPrefix p s || isSubstr p t

/-- Bytes allowed in dictionary strings and in query patterns: 0x02..0xFE. -/
def validByte (b : UInt8) : Bool := 2 ≤ b.toNat && b.toNat ≤ 254

def validStr (s : Str) : Bool := !s.isEmpty && s.all validByte

/-- Strictly increasing in `slt`. -/
def sortedStrict : List Str → Bool
  | [] => true
  | [_] => true
  | a :: b :: t => slt a b && sortedStrict (b :: t)

/-- The input contract of every constructor: non-empty, strictly sorted (hence
duplicate-free), every string non-empty over 0x02..0xFE. -/
def validDict (S : List Str) : Bool := !S.isEmpty && S.all validStr && sortedStrict S

namespace Spec

/-- 1-based position of `q` in `S`, or 0 (`NORESULT`). -/
def locate (S : List Str) (q : Str) : Nat :=
  match S.idxOf? q with
  | some i => i + 1
  | none => 0

/-- The string with 1-based ID `i`, or `none` (`NULL`). -/
def extract (S : List Str) (i : Nat) : Option Str :=
  if i = 0 then none else S[i - 1]?

/-- IDs (ascending) of the members that start with `p`. -/
def prefixIds (S : List Str) (p : Str) : List Nat :=
  (S.zipIdx 1).filterMap fun (s, i) => if isPrefix p s then some i else none

/-- IDs (ascending) of the members that contain `p`. -/
def substrIds (S : List Str) (p : Str) : List Nat :=
  (S.zipIdx 1).filterMap fun (s, i) => if isSubstr p s then some i else none

/-- Number of elements. -/
def numElements (S : List Str) : Nat := S.length

/-- Length of the longest member. -/
def maxLen (S : List Str) : Nat := S.foldl (fun m s => max m s.length) 0

end Spec
end CSD
