/-
  Driver utilities: hex, FNV-1a, line tokenising, case files.  Not part of any
  proof; this is the Lean half of the line protocol (harness/proto.md).
-/
import CSD.Spec

namespace CSD.Driver

def hexDigit (n : Nat) : Char :=
  if n < 10 then Char.ofNat (48 + n) else Char.ofNat (87 + n)

def hexOfBytes (bs : List UInt8) : String :=
  String.ofList (bs.flatMap fun b => [hexDigit (b.toNat / 16), hexDigit (b.toNat % 16)])

def hexVal (c : Char) : Nat :=
  let n := c.toNat
  if n ≤ 57 then n - 48 else (n ||| 32) - 97 + 10

def unhex (s : String) : List UInt8 :=
  if s == "-" then [] else
  let rec go : List Char → List UInt8
    | a :: b :: t => (hexVal a * 16 + hexVal b).toUInt8 :: go t
    | _ => []
  go s.toList

def fnvInit : UInt64 := 1469598103934665603
def fnvStep (h : UInt64) (b : UInt8) : UInt64 := (h ^^^ b.toUInt64) * 1099511628211
def fnvBytes (h : UInt64) (bs : List UInt8) : UInt64 := bs.foldl fnvStep h

def hex16 (h : UInt64) : String :=
  let n := h.toNat
  String.ofList ((List.range 16).map fun i => hexDigit ((n >>> (4 * (15 - i))) % 16))

def joinIds (v : List Nat) : String :=
  if v.isEmpty then "-" else ",".intercalate (v.map toString)

def joinStrs (v : List Str) : String :=
  if v.isEmpty then "-"
  else if v.length > 48 then
    let h := v.foldl (fun h s => fnvStep (fnvBytes h s) 0) fnvInit
    s!"#{v.length}:{hex16 h}"
  else ",".intercalate (v.map fun s => if s.isEmpty then "e" else hexOfBytes s)

def tokens (line : String) : List String :=
  (line.trimAscii.toString.splitOn " ").filter (· ≠ "")

structure Case where
  id : String := ""
  stream : String := ""
  kind : String := ""
  par : List (String × String) := []
  strs : Array Str := #[]
  ops : Array (List String) := #[]

def Case.geti (c : Case) (k : String) (d : Nat) : Nat :=
  match c.par.lookup k with
  | some v => v.toNat?.getD d
  | none => d

def parseParam (t : String) : Option (String × String) :=
  match t.splitOn "=" with
  | [k, v] => some (k, v)
  | _ => none

/-- Sort byte strings in unsigned lexicographic order (merge sort from core). -/
def sortStrs (v : List Str) : List Str := v.mergeSort fun a b => !(slt b a)

end CSD.Driver
