/-
  Phase-2 validator of the `rpfc` stream: the RPFC object exported by the real code (grammar, bucket
  headers, symbol streams) must *store* the front-coded dictionary — the hypotheses of the theorems of
  `CSD.Lemmas.RPFC*` — and the model of `decodeString` / `locate` / `extract` / `locatePrefix` is run on
  the exported structure against the code's answers and the specification.
-/
import CSD.Model.RPFCStore
import CSD.Model.RPFCImage
import CSD.Driver.Util

namespace CSD.Driver
open CSD CSD.RPFC

private def cNats (s : String) : List Nat :=
  if s == "-" || s == "" || s == "e" then [] else (s.splitOn ",").map fun x => x.toNat?.getD 0

private def cStrs (s : String) : List Str :=
  if s == "-" then [] else (s.splitOn ",").map unhex

/-- Scratch buffers: `vb` receives the expansion of the first symbols read until two bytes are there,
`decoded` the string and its terminator; both have `maxlength` bytes. -/
def buffersFit (g : RePair.Grammar) (maxchar maxlength : Nat) : Str → List Str → List Nat → Bool
  | _, [], _ => true
  | prev, cur :: rest, st =>
    let want := entry maxchar prev cur
    let first := match st with
      | r :: r2 :: _ => let e := g.expandSym r; if e.length < 2 then e.length + (g.expandSym r2).length else e.length
      | [r] => (g.expandSym r).length
      | [] => 0
    match takeEntry g want (want.length + 2) st [] with
    | none => false
    | some st' => first ≤ maxlength && cur.length + 1 ≤ maxlength && buffersFit g maxchar maxlength cur rest st'

def checkRpfc (strsHex qHex pHex t mc el ml bk bs rules hdr st loc abs pre ext : String) : String :=
  let S : List Str := cStrs strsHex
  if hdr == "-" then "V no-export" else
  let terminals := t.toNat?.getD 0
  let maxchar := mc.toNat?.getD 0
  let rl := (if rules == "-" then [] else rules.splitOn ",").map fun e =>
    match e.splitOn ":" with
    | [a, b] => (a.toNat?.getD 0, b.toNat?.getD 0)
    | _ => (0, 0)
  let g : RePair.Grammar := { terminals := terminals, rules := rl }
  let headers := cStrs hdr
  let streams : List (List Nat) := (st.splitOn ";").map cNats
  let d : D := { g := g, maxchar := maxchar, elements := el.toNat?.getD 0, maxlength := ml.toNat?.getD 0,
                 buckets := bk.toNat?.getD 0, bucketsize := bs.toNat?.getD 0, headers := headers, streams := streams }
  -- the exported structure stores the front-coded dictionary
  if !g.wf then "V rule-refers-forward" else
  -- (a dictionary without internal strings compresses the empty sequence: the grammar is never consulted)
  if (terminals != 256 && !(streams.all fun s => s.isEmpty)) || maxchar != 255 then s!"V terminals={terminals}-maxchar={maxchar}" else
  if d.elements != S.length then s!"V elements model={S.length} code={d.elements}" else
  if d.bucketsize < 2 then "V bucketsize-below-2" else
  let chunks := PFC.chunks d.bucketsize S
  if d.buckets != chunks.length then s!"V buckets model={chunks.length} code={d.buckets}" else
  if headers != chunks.map (fun c => c.headD []) then "V headers-are-not-the-first-strings-of-the-buckets" else
  if streams.length != chunks.length then "V one-stream-per-bucket-expected" else
  if !(streams.all fun s => s.all fun x => x < terminals + rl.length) then "V stream-symbol-out-of-range" else
  if !((chunks.zip streams).all fun (c, s) => bucketStores g maxchar (c.headD []) (c.drop 1) s) then
    "V a-stream-does-not-store-its-bucket" else
  -- the conjunction the theorems are stated under (`CSD.RPFC.stores_of_storesB`)
  if !storesB S d then "V storesB-rejects-the-object" else
  if !((chunks.zip streams).all fun (c, s) => buffersFit g maxchar d.maxlength (c.headD []) (c.drop 1) s) then
    "V a-scratch-buffer-is-too-small" else
  if !(S.all fun s => s.length + 1 ≤ d.maxlength) then "V maxlength-below-a-member" else
  -- the model of the query layer on the exported structure
  let Q := cStrs qHex
  let implLoc := cNats loc
  let implAbs := cNats abs
  let modLoc := S.map (locate d)
  let modAbs := Q.map (locate d)
  if modLoc != implLoc.map some then "V model-locate-differs-from-code-on-a-member" else
  if modAbs != implAbs.map some then "V model-locate-differs-from-code-on-a-query" else
  if modLoc != (S.map fun s => some (Spec.locate S s)) then "V model-locate-differs-from-spec" else
  if modAbs != (Q.map fun q => some (Spec.locate S q)) then "V model-locate-differs-from-spec-on-a-query" else
  let extParts := ext.splitOn ";"
  let ext := extParts.headD "-"
  let imgHex := (extParts.drop 1).headD ""
  -- the saved image: parsed by the model loader, re-serialised by the model writer, and turned by the model
  -- (positional index, NUL-terminated headers, `bitsrp`-wide fields) into the very object exported above
  let imgVerdict : String :=
    if imgHex == "" then "" else
    let bytes := unhex imgHex
    match RPFCImg.load 214 (bytes ++ [0x55, 0xaa]) with
    | none => "V model-loader-refuses-the-image"
    | some (im, rest) =>
      if rest != [0x55, 0xaa] then "V loader-does-not-consume-exactly-the-image" else
      if RPFCImg.save 214 im != bytes then "V model-save-differs-from-the-image" else
      match RPFCImg.toD im with
      | none => "V image-fields-unreadable"
      | some d' =>
        if d'.headers != d.headers then "V headers-cut-from-the-image-differ" else
        if d'.streams != d.streams then "V symbols-unpacked-from-the-image-differ" else
        if d'.g.rules != d.g.rules || d'.g.terminals != d.g.terminals || d'.maxchar != d.maxchar then "V grammar-in-the-image-differs" else
        if d'.elements != d.elements || d'.maxlength != d.maxlength || d'.buckets != d.buckets || d'.bucketsize != d.bucketsize then
          "V counters-in-the-image-differ" else ""
  if imgVerdict != "" then imgVerdict else
  let exts := if ext == "-" then [] else ext.splitOn ","
  let implExt : List (Option Str) := exts.map fun e => if e == "N" then none else some (unhex (e.drop 1).toString)
  let modExt := (List.range (S.length + 2)).map (extract d)
  if modExt != implExt.map some then "V model-extract-differs-from-code" else
  if modExt != ((List.range (S.length + 2)).map fun i => some (Spec.extract S i)) then "V model-extract-differs-from-spec" else
  let P := cStrs pHex
  let implPre := (if pre == "-" then [] else pre.splitOn ",").map fun e =>
    match e.splitOn ":" with
    | [a, b] => (a.toNat?.getD 0, b.toNat?.getD 0)
    | _ => (0, 0)
  let modPre := P.map (locatePrefix d)
  let specPre := P.map fun p =>
    let ids := Spec.prefixIds S p
    match ids.head?, ids.getLast? with
    | some a, some b => some (a, b)
    | _, _ => some (0, 0)
  if modPre != implPre.map some then "V model-locatePrefix-differs-from-code" else
  if modPre != specPre then "V model-locatePrefix-differs-from-spec" else
  -- the string iterator on the exported structure: table scan and the range scans of `extractPrefix`
  if S != [] && extractTable d != some S then "V model-extractTable-differs-from-spec" else
  let specXp := P.map fun p =>
    let l := (Spec.prefixIds S p).filterMap (Spec.extract S)
    some (if l.isEmpty then none else some l)
  if P.map (extractPrefix d) != specXp then "V model-extractPrefix-differs-from-spec" else
  "V ok"

def runRpfcStream (c : Case) (emit : Nat → String → IO Unit) : IO Unit := do
  let mut k := 0
  for op in c.ops do
    k := k + 1
    match op with
    | ["rfchk", strs, q, p, t, mc, el, ml, bk, bs, rules, hdr, st, loc, abs, pre, ext] =>
      emit k (checkRpfc strs q p t mc el ml bk bs rules hdr st loc abs pre ext)
    | ["rdskip"] => emit k "V ok"
    | _ => emit k "V unparsable-export"

end CSD.Driver
