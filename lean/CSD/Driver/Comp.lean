/-
  Expected answers for the component streams (vbyte, logseq, ...), computed by
  the models in CSD/Model.
-/
import CSD.Model.VByte
import CSD.Model.LogSeq
import CSD.Model.PFCLoad
import CSD.Model.DAC
import CSD.Driver.Util

namespace CSD.Driver

def runVByte (c : Case) (emit : Nat → String → IO Unit) : IO Unit := do
  let mut k := 0
  for op in c.ops do
    k := k + 1
    match op with
    | ["enc", v] =>
      let v := v.toNat?.getD 0
      let e := VByte.encode v
      match VByte.decode32 e with
      | .ok d n => emit k s!"VE {hexOfBytes e} dec={d} used={n} vb2=same"
      | _ => emit k s!"VE {hexOfBytes e} dec=FAULT"
    | ["dec", h] =>
      match VByte.decode32 (unhex h) with
      | .ok d n => emit k s!"VD {d} {n}"
      | .overrun => emit k "VD OVERRUN"
      | .shiftUB => emit k "VD SHIFTUB"
    | _ => emit k "ERR unknown-op"

def runLogSeq (c : Case) (emit : Nat → String → IO Unit) : IO Unit := do
  let mut k := 0
  let w := c.geti "w" 8
  let mut s := LogSeq.mk w (c.geti "n" 8)
  for op in c.ops do
    k := k + 1
    match op with
    | ["set", i, v] =>
      match s.set (i.toNat?.getD 0) (v.toNat?.getD 0) with
      | some s' => s := s'; emit k "LS ok"
      | none => emit k "LS FAULT"
    | ["get", i] =>
      match s.get (i.toNat?.getD 0) with
      | some v => emit k s!"LG {v.toNat}"
      | none => emit k "LG FAULT"
    | ["all"] =>
      let vs := (List.range s.numentries).map fun i => match s.get i with
        | some v => toString v.toNat
        | none => "FAULT"
      emit k s!"LA {",".intercalate vs}"
    | ["image"] => emit k s!"LI {hexOfBytes s.save}"
    | ["reload"] =>
      -- the model of `LogSequence(std::istream&)` parses the model's own image followed by a trailer
      let trailer : List UInt8 := [0x54, 0x52, 0x41, 0x49, 0x4c, 0x45, 0x52, 0x21]
      match LogSeq.load (s.save ++ trailer) with
      | some (s', rest) =>
        if rest == trailer then s := s'; emit k "LR consumed=all"
        else emit k "LR consumed=not-all"
      | none => emit k "LR MODEL-FAULT"
    | "vec" :: vs =>
      match LogSeq.ofList (vs.map fun v => v.toNat?.getD 0) w with
      | some s' => s := s'; emit k "LV ok"
      | none => emit k "LV FAULT"
    | _ => emit k "ERR unknown-op"

/-- The DAC stream: layout and accesses of the exact model. -/
def runDac (c : Case) (emit : Nat → String → IO Unit) : IO Unit := do
  let mut k := 0
  for op in c.ops do
    k := k + 1
    match op with
    | "dac" :: _ :: seqs :: _ =>
      let L : List (List Nat) := (seqs.splitOn ";").map fun sq => (sq.splitOn ",").map fun x => x.toNat?.getD 0
      let d := DAC.build L
      let idx := ",".intercalate (d.levelsIndex.map toString)
      let bits := String.mk (d.bits.map fun b => if b then '1' else '0')
      let accs := (List.range d.listLength).map fun i =>
        match DAC.access d (i + 1) with
        | some sq => ",".intercalate (sq.map toString)
        | none => "MODEL-FAULT"
      let acc := ";".intercalate accs
      emit k s!"DAC n={d.nLevels} len={d.listLength} idx={idx} bits={if bits.isEmpty then "-" else bits} acc={if acc.isEmpty then "-" else acc} nxt={if acc.isEmpty then "-" else acc}"
    | _ => emit k "ERR unknown-op"

/-- The pool stream: what every terminating run must report (exactly-once, C10). -/
def runPool (c : Case) (emit : Nat → String → IO Unit) : IO Unit := do
  let mut k := 0
  for op in c.ops do
    k := k + 1
    match op with
    | ["pool", _n, t, _mode, _strategy, _seed] =>
      let t := t.toNat?.getD 0
      emit k s!"PL tasks={t} ran={t} maxcount={if t > 0 then 1 else 0} selfconcurrent=0 joined=1"
    | _ => emit k "ERR unknown-op"

end CSD.Driver
