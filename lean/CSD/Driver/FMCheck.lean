/-
  Phase-2 validator of the `fm` stream: the FM-index exported by the real
  `StringDictionaryFMINDEX` is compared with what the model's build derives from
  the sorted rows of the text (the hypotheses of the theorems in `CSD.Lemmas.FM*`),
  and the models of `locate_id` / `locateP` / `locate` / `extract_id` are run on the
  exported structure against the code's answers and the specification.
-/
import CSD.Model.FM
import CSD.Driver.Util

namespace CSD.Driver
open CSD CSD.FM

private def commaNats (s : String) : List Nat :=
  if s == "-" || s == "" then [] else (s.splitOn ",").map fun x => x.toNat?.getD 0

private def bitsOf (s : String) : List Bool :=
  if s == "-" then [] else s.toList.map (· == '1')

private def commaStrs (s : String) : List Str :=
  if s == "-" then [] else (s.splitOn ",").map unhex

/-- Executable check of `IsSA T L`: the rows are sorted strictly, there is one row per
suffix length `0 .. n`, and every row is the suffix of its length with the symbol in front of it. -/
def checkSA (T : List Sym) (L : List Row) : Bool :=
  let n := T.length
  let rec sorted : List Row → Bool
    | a :: b :: t => decide (a.2 < b.2) && sorted (b :: t)
    | _ => true
  L.length == n + 1 && sorted L &&
  ((L.map (·.2.length)).mergeSort (fun a b => decide (a ≤ b)) == List.range (n + 1)) &&
  L.all fun r =>
    let k := n - r.2.length
    r.2 == T.drop k && r.1 == (if k = 0 then none else T[k - 1]?)

def checkFm (strsHex qHex pHex sHex n el ml bwt occ alpha ss sampled samp loc abs pre sub ext : String) : String :=
  let S : List Str := commaStrs strsHex
  if bwt == "-" then "V no-export" else
  let T := mkText S
  let L := sortRows T
  if !checkSA T L then "V model-suffix-sort-is-not-a-suffix-array" else
  if n.toNat?.getD 0 != T.length then s!"V text-length model={T.length} code={n}" else
  if el.toNat?.getD 0 != S.length then s!"V elements model={S.length} code={el}" else
  let step := ss.toNat?.getD 0
  let mi := buildIndex T L step
  let xi : Index := { bwt := commaNats bwt, occ := commaNats occ, alphabet := bitsOf alpha, samplesuff := step,
                      sampled := bitsOf sampled, suffSample := commaNats samp }
  -- the exported structure is what the model derives from the suffix array
  if xi.bwt != mi.bwt then "V bwt-differs-from-the-model-build" else
  if xi.occ != mi.occ then "V occ-differs-from-the-model-build" else
  if xi.alphabet != mi.alphabet then "V alphabet-differs-from-the-model-build" else
  if step > 0 && xi.sampled != mi.sampled then "V sampled-bitmap-differs-from-the-model-build" else
  if step > 0 && xi.suffSample.take mi.suffSample.length != mi.suffSample then "V suffix-samples-differ-from-the-model-build" else
  if step > 0 && xi.suffSample.length < mi.suffSample.length then "V suffix-samples-too-few" else
  -- the models of the queries on the exported structure
  let d : Dict := { elements := S.length, maxlength := ml.toNat?.getD 0, ix := xi }
  let Q := commaStrs qHex
  let implLoc := commaNats loc
  let implAbs := commaNats abs
  let modLoc := S.map d.locate
  let modAbs := Q.map d.locate
  if modLoc != implLoc.map some then "V model-locate-differs-from-code-on-a-member" else
  if modAbs != implAbs.map some then "V model-locate-differs-from-code-on-a-query" else
  if modLoc != (S.map fun s => some (Spec.locate S s)) then "V model-locate-differs-from-spec" else
  if modAbs != (Q.map fun q => some (Spec.locate S q)) then "V model-locate-differs-from-spec-on-a-query" else
  let P := commaStrs pHex
  let implPre := (splitOnComma pre).map fun e =>
    match e.splitOn ":" with
    | [a, b] => (a.toNat?.getD 0, b.toNat?.getD 0)
    | _ => (0, 0)
  let modPre := P.map d.locatePrefix
  let specPre := P.map fun p =>
    let ids := Spec.prefixIds S p
    match ids.head?, ids.getLast? with
    | some a, some b => some (a, b)
    | _, _ => some (0, 0)
  if modPre != implPre.map some then "V model-locatePrefix-differs-from-code" else
  if modPre != specPre then "V model-locatePrefix-differs-from-spec" else
  let extParts := ext.splitOn ";"
  let ext := extParts.headD "-"
  let tabPart := (extParts.drop 1).headD "-"
  let exts := if ext == "-" then [] else ext.splitOn ","
  let implExt : List (Option (List Sym)) := exts.map fun e =>
    if e == "N" then none else some (symsOf (unhex (e.drop 1).toString))
  let modExt := (List.range (S.length + 2)).map d.extract
  if modExt != implExt.map some then "V model-extract-differs-from-code" else
  if modExt != ((List.range (S.length + 2)).map fun i => some ((Spec.extract S i).map symsOf)) then "V model-extract-differs-from-spec" else
  -- the table scan: the model iterator on the exported index, the code's scan, the specification
  let implTab : List (List Sym) := (if tabPart == "-" || tabPart == "" then [] else tabPart.splitOn ",").map fun e => symsOf (unhex (e.drop 1).toString)
  if d.extractTable != some (S.map symsOf) then "V model-extractTable-differs-from-spec" else
  if extParts.length > 1 && implTab != S.map symsOf then "V model-extractTable-differs-from-code" else
  if step == 0 then "V ok" else
  let B := commaStrs sHex
  let implSub : List (List Nat) := (splitOnComma sub).map fun e =>
    if e == "e" then [] else (e.splitOn ".").map fun x => x.toNat?.getD 0
  let modSub := B.map d.locateSubstr
  if modSub != implSub.map some then "V model-locateSubstr-differs-from-code" else
  if modSub != (B.map fun p => some (Spec.substrIds S p)) then "V model-locateSubstr-differs-from-spec" else
  -- the duplicate-skipping string iterator of `extractSubstr` on the exported index
  let specXs := B.map fun p =>
    let l := (Spec.substrIds S p).filterMap fun id => (Spec.extract S id).map symsOf
    some (if l.isEmpty then none else some l)
  if B.map d.extractSubstr != specXs then "V model-extractSubstr-differs-from-spec" else
  "V ok"
where
  splitOnComma (s : String) : List String := if s == "-" then [] else s.splitOn ","

def runFmStream (c : Case) (emit : Nat → String → IO Unit) : IO Unit := do
  let mut k := 0
  for op in c.ops do
    k := k + 1
    match op with
    | ["fmchk", strs, q, p, b, n, el, ml, bwt, occ, alpha, ss, sampled, samp, loc, abs, pre, sub, ext] =>
      emit k (checkFm strs q p b n el ml bwt occ alpha ss sampled samp loc abs pre sub ext)
    | ["rdskip"] => emit k "V ok"
    | _ => emit k "V unparsable-export"

end CSD.Driver
