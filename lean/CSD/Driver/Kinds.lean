/-
  Kinds answered by an exact model instead of the specification.
-/
import CSD.Driver.Dict
import CSD.Model.PFC

namespace CSD.Driver

/-- PFC: locate / extract / image come from the model of the C++ code. -/
def pfcModel (c : Case) : DictModel :=
  let base := specModel c
  let d := PFC.build (c.geti "b" 4) c.strs.toList
  { base with
    numElements := d.elements
    maxLength := d.maxlength
    locate := fun q => PFC.locate d q          -- `none` prints `?`... a model fault must not pass silently:
    extract := fun i => PFC.extract d i
    image := PFC.save d
    exact := true }

def modelFor (c : Case) : DictModel :=
  match c.kind with
  | "PFC" => pfcModel c
  | _ => specModel c

end CSD.Driver
