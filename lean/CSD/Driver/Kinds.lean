/-
  Kinds answered by an exact model instead of the specification.
-/
import CSD.Driver.Dict
import CSD.Model.PFC
import CSD.Model.PFCLoad
import CSD.Model.PFCPrefix
import CSD.Model.Hash

namespace CSD.Driver

/-- PFC: locate / extract / image come from the model of the C++ code. -/
def pfcModel (c : Case) : DictModel :=
  let base := specModel c
  let d := PFC.build (c.geti "b" 4) c.strs.toList
  { base with
    numElements := d.elements
    maxLength := d.maxlength
    locate := fun q => PFC.locate d q          -- `none` prints `?`... a model fault must not pass silently:
    extract := fun i => PFC.extract d i
    image := PFC.save d
    prefixRange := some fun p => PFC.locatePrefix d p
    prefixStrings := some fun p => PFC.extractPrefix d p
    tableScan := some (PFC.table d)
    reload := some fun stream =>
      match PFC.load stream with
      | some (d', rest) =>
        some (fun q => PFC.locate d' q, fun i => PFC.extract d' i, d'.elements, d'.maxlength, PFC.save d', rest)
      | none => none
    exact := true }

/-- `(uint)(elements * (1 + overhead / 100.0))`: exact for overheads that are multiples of 25
(1 + ov/100 is then a binary fraction); otherwise the case carries `hs`, the value the same
double expression gives in the generator. -/
def hashSize (c : Case) (n : Nat) : Option Nat :=
  match c.par.lookup "hs" with
  | some v => v.toNat?
  | none =>
    let ov := c.geti "ov" 25
    if ov % 25 = 0 then some (n * (100 + ov) / 100) else none

/-- HASHRPDAC: exact IDs from the model of the hash functions and of double hashing. -/
def hashrpdacModel (c : Case) : DictModel :=
  let base := specModel c
  let S := c.strs.toList
  match hashSize c S.length with
  | none => base
  | some hs =>
    let d := Hash.build hs S
    -- hypotheses of the hash theorems: the table holds the strings and its size passed nearest_prime's test
    let ok := S.length ≤ d.tsize && (d.tsize % 2 != 0 && Hash.oddTrial d.tsize (Nat.sqrt d.tsize + 2) 3)
    { base with
      locate := fun q => if ok then some (Hash.locate d q) else none
      extract := fun i => if ok then some (Hash.extract d i) else none
      exact := true }

/-- HASHRPDACBlocks: cut, per-part hash tables, routing by samples and starting indexes. -/
def blocksModel (c : Case) : DictModel :=
  let base := specModel c
  let S := c.strs.toList
  let ov := c.geti "ov" 25
  if ov % 25 ≠ 0 then base else
  let d := Hash.buildBlocks (c.geti "cut" 64) (fun k => k * (100 + ov) / 100) S
  -- the hypotheses of the Blocks theorems (`PartsOK`): every part's table holds its block and has a size
  -- that passed nearest_prime's own test; otherwise the model refuses to answer (reported as MODEL-FAULT)
  let ok := d.parts.all fun p => p.S.length ≤ p.tsize && (p.tsize % 2 != 0 && Hash.oddTrial p.tsize (Nat.sqrt p.tsize + 2) 3)
  { base with
    locate := fun q => if ok then some (Hash.locateBlocks d q) else none
    extract := fun i => if ok then some (Hash.extractBlocks d i) else none
    tableScan := if ok then some ((Hash.tableBlocks d).map (·.filterMap id)) else none
    exact := true }

def modelFor (c : Case) : DictModel :=
  -- large dictionaries (`scale=1`) are answered from the specification: the list-based exact models are
  -- quadratic in the number of strings
  if c.geti "scale" 0 = 1 then specModel c else
  match c.kind with
  | "PFC" => pfcModel c
  | "HASHRPDAC" => hashrpdacModel c
  | "HASHRPF" => hashrpdacModel c      -- same keys, same table size, same probing (`Hash::insert`), ID = rank of the cell
  | "BLOCKS" => blocksModel c
  | _ => specModel c

end CSD.Driver
