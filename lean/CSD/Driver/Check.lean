/-
  Phase-2 validators and plain-definition oracles of the component streams:
  the structures exported by the real code (code tables, grammars) are re-validated
  here with the executable definitions the theorems are about.
-/
import CSD.Model.Codes
import CSD.Model.StatCoder
import CSD.Model.RePair
import CSD.Model.RG
import CSD.Model.RGImage
import CSD.Model.RPDAC
import CSD.Model.HashRP
import CSD.Model.RPDACImage
import CSD.Model.HRPDACImage
import CSD.Model.BlocksImage
import CSD.Driver.Util

namespace CSD.Driver
open CSD

def splitComma (s : String) : List String := if s == "-" then [] else s.splitOn ","

def hexNat (s : String) : Nat := s.toList.foldl (fun a c => a * 16 + hexVal c) 0

/-- Bits of a right-aligned codeword of length `len`, most significant first. -/
def cwBits (cw len : Nat) : List Bool := (List.range len).map fun i => cw.testBit (len - 1 - i)

/-- Rebuild the code tree from a table (fuel = maximal depth). -/
def treeOf : Nat → List (Nat × List Bool) → Option Codes.Tree
  | _, [] => none
  | 0, [(s, [])] => some (.leaf s)
  | 0, _ => none
  | fuel + 1, tbl =>
    match tbl with
    | [(s, [])] => some (.leaf s)
    | _ =>
      if tbl.any (fun e => e.2.isEmpty) then none else
      let l := tbl.filterMap fun (s, c) => match c with | false :: r => some (s, r) | _ => none
      let r := tbl.filterMap fun (s, c) => match c with | true :: r => some (s, r) | _ => none
      match treeOf fuel l, treeOf fuel r with
      | some tl, some tr => some (.node tl tr)
      | _, _ => none

def checkCodeTable (kind : String) (tbl : String) : String :=
  let entries := (splitComma tbl).map fun e =>
    match e.splitOn ":" with
    | [b, c] => (b.toNat?.getD 0, hexNat c)
    | _ => (0, 0)
  if entries.length != 256 then "V bad-entry-count" else
  if entries.any (fun (b, _) => b == 0 || b > 32) then "V codeword-length-outside-1..32" else
  let codes := (List.range 256).zip entries |>.map fun (s, (b, c)) => (s, cwBits c b)
  let kraft := entries.foldl (fun a (b, _) => a + 2 ^ (32 - b)) 0
  if kraft != 2 ^ 32 then s!"V not-complete kraft={kraft}" else
  match treeOf 33 codes with
  | none => "V not-prefix-free (no code tree has these paths)"
  | some t =>
    -- the table is exactly the set of root-to-leaf paths of `t`
    let paths := Codes.codes t
    if paths.length != 256 || !(codes.all fun e => paths.contains e) then "V table-differs-from-tree-paths" else
    if kind == "hu" && !(Codes.leaves t == List.range 256) then "V not-alphabetic (leaves out of order)" else
    if kind == "hu" && !((List.range 255).all fun i =>
        match codes[i]?, codes[i+1]? with
        | some a, some b => Codes.bitsLt a.2 b.2
        | _, _ => false) then "V codewords-not-increasing" else
    -- decode ∘ encode on a word that uses every symbol
    let w := List.range 256 ++ [0, 255, 7, 7, 128]
    match Codes.encode t w with
    | none => "V cannot-encode"
    | some bits =>
      match Codes.decode t w.length (bits ++ [true, false]) with
      | some (w', rest) => if w' == w && rest == [true, false] then "V ok" else "V decode-differs"
      | none => "V cannot-decode"

/-- `Grammar.expand` with the rule table computed once (`g.table` is re-evaluated by every call of
`expandSym`); the same value. -/
def expandT (g : RePair.Grammar) (tbl : List (List Nat)) (seq : List Nat) : List Nat :=
  seq.flatMap (RePair.expandWith g.terminals tbl)

theorem expandT_table (g : RePair.Grammar) (seq : List Nat) : expandT g g.table seq = g.expand seq := rfl

/-- `Grammar.table` built with an array (constant-time pushes and look-ups) for grammars of hundreds of
thousands of rules; the same table. -/
def tableArrFrom (terminals : Nat) : List (Nat × Nat) → Array (List Nat) → Array (List Nat)
  | [], tbl => tbl
  | (a, b) :: rest, tbl =>
    tableArrFrom terminals rest
      (tbl.push ((if a < terminals then [a] else tbl.getD (a - terminals) []) ++
                 (if b < terminals then [b] else tbl.getD (b - terminals) [])))

theorem tableArrFrom_eq (terminals : Nat) : ∀ (rules : List (Nat × Nat)) (tbl : Array (List Nat)),
    (tableArrFrom terminals rules tbl).toList = RePair.buildTable terminals rules tbl.toList
  | [], tbl => rfl
  | (a, b) :: rest, tbl => by
    simp only [tableArrFrom, RePair.buildTable]
    rw [tableArrFrom_eq terminals rest]
    have h : ∀ i, tbl.getD i [] = tbl.toList.getD i [] := by
      intro i
      simp only [Array.getD, List.getD, Array.getElem?_toList]
      split
      · rename_i h; simp [h]
      · rename_i h; simp [h]
    simp [RePair.expandWith, h]

/-- Expansion with the array table. -/
def expandA (terminals : Nat) (tbl : Array (List Nat)) (seq : List Nat) : List Nat :=
  seq.flatMap fun s => if s < terminals then [s] else tbl.getD (s - terminals) []

theorem expandA_eq (g : RePair.Grammar) (seq : List Nat) :
    expandA g.terminals (tableArrFrom g.terminals g.rules #[]) seq = g.expand seq := by
  have h : ∀ (tbl : Array (List Nat)) i, tbl.getD i [] = tbl.toList.getD i [] := by
    intro tbl i
    simp only [Array.getD, List.getD, Array.getElem?_toList]
    split
    · rename_i h; simp [h]
    · rename_i h; simp [h]
  unfold expandA RePair.Grammar.expand RePair.Grammar.expandSym RePair.Grammar.table
  congr 1
  funext s
  rw [h, tableArrFrom_eq]
  rfl

def checkRePair (maxchar input t bits rules seq : String) : String :=
  let inp := (splitComma input).map fun x => x.toNat?.getD 0
  let terminals := t.toNat?.getD 0
  let rl := (splitComma rules).map fun e =>
    match e.splitOn ":" with
    | [a, b] => (a.toNat?.getD 0, b.toNat?.getD 0)
    | _ => (0, 0)
  let cs := (splitComma seq).map fun x => x.toNat?.getD 0
  let g : RePair.Grammar := { terminals := terminals, rules := rl }
  if !g.wf then "V rule-refers-forward" else
  if !g.zeroFree then "V rule-contains-terminator" else
  if !(cs.all fun x => x < terminals + rl.length) then "V sequence-symbol-out-of-range" else
  -- table and expansion through an array (`expandA_eq`: the same list as `g.expand cs`)
  if expandA terminals (tableArrFrom terminals rl #[]) cs != inp then "V expansion-differs-from-input" else
  let b := bits.toNat?.getD 0
  if b != RePair.bits (rl.length + terminals) then s!"V bits-reported={b}-expected={RePair.bits (rl.length + terminals)}" else
  if !(terminals + rl.length ≤ 2 ^ b) then "V bits-do-not-suffice" else
  if !(inp.all fun x => x < terminals) then s!"V terminal-outside-alphabet maxchar={maxchar}" else
  "V ok"

/-- The RPDAC object exported by the real code (grammar, one symbol sequence per string, its own
answers) against the hypotheses of `CSD.RPDAC.locate_represents` (`Represents`: well-formed rules,
valid symbols, the i-th sequence expands to the i-th string) — and the model of the query layer run
on those very structures against the real answers and the specification. -/
def checkRpdac (strsHex queriesHex prefHex t rules seqs loc abs pre : String) : String :=
  let S : List Str := (splitComma strsHex).map unhex
  let Q : List Str := (splitComma queriesHex).map unhex
  let terminals := t.toNat?.getD 0
  let rl := (splitComma rules).map fun e =>
    match e.splitOn ":" with
    | [a, b] => (a.toNat?.getD 0, b.toNat?.getD 0)
    | _ => (0, 0)
  let sq : List (List Nat) := if seqs == "-" then [] else (seqs.splitOn ";").map fun x => (x.splitOn ",").map fun y => y.toNat?.getD 0
  let g : RePair.Grammar := { terminals := terminals, rules := rl }
  let d : RPDAC.D := { g := g, seqs := sq }
  let nat (s : Str) : List Nat := s.map (·.toNat)
  if !g.wf then "V rule-refers-forward" else
  if sq.length != S.length then s!"V sequences={sq.length}-strings={S.length}" else
  if !(sq.all fun syms => syms.all fun x => x < terminals + rl.length) then "V sequence-symbol-out-of-range" else
  if !(let tbl := g.table; (sq.zip S).all fun (syms, s) => expandT g tbl syms == nat s) then "V a-sequence-does-not-expand-to-its-string" else
  -- the model of locate on the real structures
  let implLoc := (splitComma loc).map fun x => x.toNat?.getD 0
  let implAbs := (splitComma abs).map fun x => x.toNat?.getD 0
  let modLoc := S.map fun s => RPDAC.locate d (nat s)
  let modAbs := Q.map fun q => RPDAC.locate d (nat q)
  if modLoc != implLoc.map some then "V model-locate-differs-from-code-on-a-member" else
  if modAbs != implAbs.map some then "V model-locate-differs-from-code-on-a-query" else
  if modLoc != (S.map fun s => some (Spec.locate S s)) then "V model-locate-differs-from-spec" else
  if modAbs != (Q.map fun q => some (Spec.locate S q)) then "V model-locate-differs-from-spec-on-a-query" else
  -- the table scan of the model iterator on the real structures
  if RPDAC.extractTable d != some (S.map nat) then "V model-extractTable-differs-from-spec" else
  -- prefix search: the model on the real structures vs the code's ranges vs the specification
  let P : List Str := (splitComma prefHex).map unhex
  let implPre := (splitComma pre).map fun e =>
    match e.splitOn ":" with
    | [a, b] => (a.toNat?.getD 0, b.toNat?.getD 0)
    | _ => (0, 0)
  let modPre := P.map fun p => RPDAC.locatePrefix d (nat p)
  let specPre := P.map fun p =>
    let ids := Spec.prefixIds S p
    match ids.head?, ids.getLast? with
    | some a, some b => some (a, b)
    | _, _ => some (0, 0)
  if modPre != implPre.map some then "V model-locatePrefix-differs-from-code" else
  if modPre != specPre then "V model-locatePrefix-differs-from-spec" else
  -- the string iterator of `extractPrefix` on the real grammar
  let specXp := P.map fun p => some (((Spec.prefixIds S p).filterMap (Spec.extract S)).map nat)
  if (P.map fun p => RPDAC.extractPrefix d (nat p)) != specXp then "V model-extractPrefix-differs-from-spec" else
  "V ok"

/-- The HASHRPDAC object exported by the real code against the exact table model (size, occupancy) and
the hypotheses of `CSD.Hash.locateRP_eq` (`StoresRP`: the sequence at DAC position `id` expands to the
string whose cell has rank `id`), and the model of the real `locate` run on those structures. -/
def checkHrpdac (strsHex queriesHex hs ts occ t rules seqs loc abs : String) : String :=
  let S : List Str := (splitComma strsHex).map unhex
  let Q : List Str := (splitComma queriesHex).map unhex
  let terminals := t.toNat?.getD 0
  let rl := (splitComma rules).map fun e =>
    match e.splitOn ":" with
    | [a, b] => (a.toNat?.getD 0, b.toNat?.getD 0)
    | _ => (0, 0)
  let sq : List (List Nat) := if seqs == "-" then [] else (seqs.splitOn ";").map fun x => (x.splitOn ",").map fun y => y.toNat?.getD 0
  let g : RePair.Grammar := { terminals := terminals, rules := rl }
  let d := Hash.build (hs.toNat?.getD 0) S
  if d.tsize != ts.toNat?.getD 0 then s!"V table-size model={d.tsize} code={ts}" else
  -- the hypothesis `accepted` of the hash theorems (the size passed nearest_prime's own trial division)
  if !(d.tsize % 2 != 0 && Hash.oddTrial d.tsize (Nat.sqrt d.tsize + 2) 3) then "V table-size-not-accepted-by-nearest_prime" else
  if !(S.length ≤ hs.toNat?.getD 0) then "V requested-size-below-the-number-of-strings" else
  let modOcc := String.ofList (d.table.map fun c => if c.isSome then '1' else '0')
  if modOcc != occ then "V occupancy-bitmap-differs" else
  if !g.wf then "V rule-refers-forward" else
  if sq.length != S.length then s!"V sequences={sq.length}-strings={S.length}" else
  if !(sq.all fun syms => syms.all fun x => x < terminals + rl.length) then "V sequence-symbol-out-of-range" else
  -- StoresRP: DAC position id holds the string with ID id
  let tbl := g.table
  if !((List.range S.length).all fun i =>
        match Hash.extract d (i + 1), sq[i]? with
        | some w, some syms => expandT g tbl syms == Hash.natBytes w
        | _, _ => false) then "V a-DAC-position-does-not-hold-the-string-with-that-ID" else
  let implLoc := (splitComma loc).map fun x => x.toNat?.getD 0
  let implAbs := (splitComma abs).map fun x => x.toNat?.getD 0
  let modLoc := S.map fun s => Hash.locateRP d g sq s
  let modAbs := Q.map fun q => Hash.locateRP d g sq q
  if modLoc != implLoc.map some then "V model-locate-differs-from-code-on-a-member" else
  if modAbs != implAbs.map some then "V model-locate-differs-from-code-on-a-query" else
  if modLoc != (S.map fun s => some (Hash.locate d s)) then "V locateRP-differs-from-table-locate" else
  if !(modAbs.zip Q).all (fun (r, q) => (r == some 0) == !(S.contains q)) then "V absent-query-not-answered-0" else
  "V ok"

/-- Prefix of the stream whose expansion has `n` terminals (greedy; `none` if it does not end on a symbol). -/
def takeExp (g : RePair.Grammar) (tbl : List (List Nat)) : Nat → List Nat → Nat → Option (List Nat)
  | 0, _, _ => none
  | _ + 1, _, 0 => some []
  | fuel + 1, [], _ + 1 => none
  | fuel + 1, x :: xs, n + 1 =>
    let k := (RePair.expandWith g.terminals tbl x).length
    if k = 0 ∨ k > n + 1 then none else (takeExp g tbl fuel xs (n + 1 - k)).map (x :: ·)

/-- The HASHRPF object exported by the real code against the exact table model and the hypotheses of
`CSD.Hash.locateRPF_eq` (`StoresRPF`), and the model of the real `locate` run on those structures. -/
def checkHrpf (strsHex queriesHex hs ts occ t mc rules cls offs loc abs : String) : String :=
  let S : List Str := (splitComma strsHex).map unhex
  let Q : List Str := (splitComma queriesHex).map unhex
  let terminals := t.toNat?.getD 0
  let T := mc.toNat?.getD 0
  let rl := (splitComma rules).map fun e =>
    match e.splitOn ":" with
    | [a, b] => (a.toNat?.getD 0, b.toNat?.getD 0)
    | _ => (0, 0)
  let clsL := (splitComma cls).map fun x => x.toNat?.getD 0
  let offL := (splitComma offs).map fun x => x.toNat?.getD 0
  let g : RePair.Grammar := { terminals := terminals, rules := rl }
  let d := Hash.build (hs.toNat?.getD 0) S
  if d.tsize != ts.toNat?.getD 0 then s!"V table-size model={d.tsize} code={ts}" else
  if !(d.tsize % 2 != 0 && Hash.oddTrial d.tsize (Nat.sqrt d.tsize + 2) 3) then "V table-size-not-accepted-by-nearest_prime" else
  if !(S.length ≤ hs.toNat?.getD 0) then "V requested-size-below-the-number-of-strings" else
  let modOcc := String.ofList (d.table.map fun c => if c.isSome then '1' else '0')
  if modOcc != occ then "V occupancy-bitmap-differs" else
  if !g.wf then "V rule-refers-forward" else
  if !(clsL.all fun x => x < terminals + rl.length) then "V sequence-symbol-out-of-range" else
  if !(S.all fun s => !(Hash.natBytes s).contains T) then "V terminator-occurs-in-a-string" else
  -- offsets of the occupied cells, in cell order
  let cells := (d.table.zipIdx).filterMap fun (c, i) => c.map fun k => (i, k)
  if cells.length != offL.length then s!"V offsets={offL.length}-occupied={cells.length}" else
  let offOf : Nat → Nat := fun cell => ((cells.zip offL).find? fun ((i, _), _) => i == cell).map (·.2) |>.getD 0
  -- StoresRPF: from the offset of a cell on, symbols expanding to that cell's string and the terminator
  let tbl := g.table
  if !((cells.zip offL).all fun ((_, k), o) =>
        match S[k]? with
        | some s =>
          match takeExp g tbl (s.length + 3) (clsL.drop o) (s.length + 1) with
          | some syms => expandT g tbl syms == Hash.natBytes s ++ [T]
          | none => false
        | none => false) then "V a-cell-offset-does-not-lead-to-its-string" else
  let implLoc := (splitComma loc).map fun x => x.toNat?.getD 0
  let implAbs := (splitComma abs).map fun x => x.toNat?.getD 0
  let modLoc := S.map fun s => Hash.locateRPF d g T clsL offOf s
  let modAbs := Q.map fun q => Hash.locateRPF d g T clsL offOf q
  if modLoc != implLoc.map some then "V model-locate-differs-from-code-on-a-member" else
  if modAbs != implAbs.map some then "V model-locate-differs-from-code-on-a-query" else
  if modLoc != (S.map fun s => some (Hash.locate d s)) then "V locateRPF-differs-from-table-locate" else
  if !(modAbs.zip Q).all (fun (r, q) => (r == some 0) == !(S.contains q)) then "V absent-query-not-answered-0" else
  "V ok"

/-- bit `k` of the hex-encoded byte string -/
def bitsOfHex (h : String) (n : Nat) : List Bool :=
  let bytes := unhex h
  (List.range n).map fun k => ((bytes.getD (k / 8) 0).toNat >>> (k % 8)) % 2 == 1

def joinNat (l : List Nat) : String := if l.isEmpty then "-" else ",".intercalate (l.map toString)

/-- Positions (0-based) of the `true` bits / `false` bits. -/
def positionsOf (bits : List Bool) (v : Bool) : List Nat :=
  (bits.zipIdx).filterMap fun (b, i) => if b == v then some i else none

def bvLine (impl : String) (par n : Nat) (h : String) : String :=
  let bits := bitsOfHex h n
  let acc := if bits.isEmpty then "-" else String.ofList (bits.map fun b => if b then '1' else '0')
  -- words for the exact RG model
  let words := (List.range (n / 32 + 2)).map fun w =>
    (List.range 32).foldl (fun a i => if bits.getD (32 * w + i) false then a + 2 ^ i else a) 0
  let prefixOnes := (List.range n).map fun k => (bits.take (k + 1)).count true
  let r1 := if impl == "rg" && par > 0 then (List.range n).map (RG.rank1 words par) else prefixOnes
  let r0 := (List.range n).zip r1 |>.map fun (k, r) => k + 1 - r
  -- select1 through the exact model of BitSequenceRG::select1 (and it must agree with the plain positions)
  let total := bits.count true
  let s1plain := positionsOf bits true
  let s1 := if impl == "rg" && par > 0 then
      (List.range total).map fun j => RG.select1 (words.take (n / 32 + 1)) par n total (j + 1)
    else s1plain.map some
  let s1txt := if s1 == s1plain.map some then joinNat s1plain
    else "MODEL-DIFFERS-FROM-PLAIN:" ++ joinNat (s1.map fun o => o.getD 4000000000)
  -- select0 through the exact model of BitSequenceRG::select0
  let s0plain := positionsOf bits false
  let s0 := if impl == "rg" && par > 0 then
      (List.range (n - total)).map fun j => RG.select0 (words.take (n / 32 + 1)) par n total (j + 1)
    else s0plain.map some
  let s0txt := if s0 == s0plain.map some then joinNat s0plain
    else "MODEL-DIFFERS-FROM-PLAIN:" ++ joinNat (s0.map fun o => o.getD 4000000000)
  -- the image `save` writes for the built object (data words, `BuildRank` counters), and it must reload to itself
  let img := if impl == "rg" && par > 0 then
      let d := RG.build words n par
      let bytes := RG.saveImg d
      match RG.loadImg (bytes ++ [7]) with
      | some (d', [7]) => if d' == d then hexOfBytes bytes else "MODEL-RELOAD-DIFFERS"
      | _ => "MODEL-RELOAD-FAILS"
    else "-"
  s!"BV n={n} acc={acc} r1={joinNat r1} r0={joinNat r0} s1={s1txt} s0={s0txt} cnt={bits.count true} img={img}"

def wtLine (syms : String) : String :=
  let seq := (splitComma syms).map fun x => x.toNat?.getD 0
  let n := seq.length
  let mx := seq.foldl max 0
  let rk := (List.range (mx + 1)).flatMap fun c =>
    (List.range n).filterMap fun i =>
      if i % 3 == 0 || i + 1 == n then some ((seq.take (i + 1)).count c) else none
  let sl := (List.range (mx + 1)).flatMap fun c =>
    (seq.zipIdx).filterMap fun (x, i) => if x == c then some i else none
  let j := fun (l : List Nat) => if l.isEmpty then "-" else String.join (l.map fun x => toString x ++ ",")
  s!"WT n={n} acc={joinNat seq} rk={j rk} sl={j sl}"


/-- The saved image of a real StringDictionaryRPDAC: the model loader must consume exactly the image, the
model writer must reproduce it byte for byte from the parsed fields, and the parsed counters, rule table and
array sizes must be those of the object (`CSD.RPDACImg.load_save`). -/
def checkRpdacImg (img el ml t mc rules : String) : String :=
  let nat (s : String) := s.toNat?.getD 0
  let bytes := unhex img
  match RPDACImg.load 3 124 (bytes ++ [0x55, 0xaa]) with
  | none => "V model-loader-refuses-the-image"
  | some (d, rest) =>
    if rest != [0x55, 0xaa] then "V loader-does-not-consume-exactly-the-image" else
    if RPDACImg.save 3 d != bytes then "V model-save-differs-from-the-image" else
    if d.elements != nat el then "V elements-differ" else
    if d.maxlength != nat ml then "V maxlength-differs" else
    if d.rp.terminals != nat t || d.rp.maxchar != nat mc then "V grammar-header-differs" else
    let rl := (splitComma rules).map fun e =>
      match e.splitOn ":" with
      | [a, b] => (nat a, nat b)
      | _ => (0, 0)
    if d.rp.rules != rl.length then "V rule-count-differs" else
    if !((List.range rl.length).all fun k =>
          (d.rp.G.get (2 * k)).map (·.toNat) == some (rl.getD k (0, 0)).1 &&
          (d.rp.G.get (2 * k + 1)).map (·.toNat) == some (rl.getD k (0, 0)).2) then "V rule-table-differs" else
    -- the hypotheses of `load_save` on the parsed object
    if !(d.rp.G.data.length == LogSeq.numWords d.rp.G.numbits d.rp.G.numentries) then "V rule-table-word-count" else
    let c := d.rp.cdac
    if !(c.levelsIndex.length == c.nLevels + 1 && c.levels.length == c.tamCode / 32 + 1 && c.rankLevels.length == c.nLevels) then
      "V dac-array-lengths" else
    if c.listLength != nat el then "V dac-list-length-differs-from-elements" else
    "V ok"


/-- The saved image of a real StringDictionaryHASHRPDAC: consumed exactly by the model loader, reproduced byte
for byte by the model writer, and carrying the counters, the table size and the occupancy bitmap of the object
(`CSD.HRPDACImg.load_save`). -/
def checkHrpdacImg (img el ml ts n occ : String) : String :=
  let nat (s : String) := s.toNat?.getD 0
  let bytes := unhex img
  match HRPDACImg.load (bytes ++ [0x55, 0xaa]) with
  | none => "V model-loader-refuses-the-image"
  | some (d, rest) =>
    if rest != [0x55, 0xaa] then "V loader-does-not-consume-exactly-the-image" else
    if HRPDACImg.save d != bytes then "V model-save-differs-from-the-image" else
    if d.elements != nat el || d.maxlength != nat ml then "V counters-differ" else
    if d.tsize != nat ts || d.n != nat n then "V table-header-differs" else
    if d.bht.n != nat ts then "V bitmap-length-differs-from-the-table-size" else
    let bits : List Bool := if occ == "-" then [] else occ.toList.map (· == '1')
    if !((List.range bits.length).all fun i => ((d.bht.data.getD (i / 32) 0) >>> (i % 32)) % 2 == (if bits.getD i false then 1 else 0)) then
      "V occupancy-bitmap-differs" else
    if d.rp.cdac.listLength != nat el then "V dac-list-length-differs-from-elements" else
    "V ok"


/-- The saved image of a real block dictionary: consumed exactly by the model loader, reproduced byte for byte
by the model writer, with the header, first strings, starting IDs and part sizes of the object
(`CSD.BlocksImg.load_save`); the parts partition the input: their sizes add up to the number of strings, the
starting IDs are the running sums, and every first string is the member at that position. -/
def checkBlocksImg (strsHex img ml cs sq np firsts starts pel : String) : String :=
  let nat (s : String) := s.toNat?.getD 0
  let S : List Str := (splitComma strsHex).map unhex
  let bytes := unhex img
  match BlocksImg.load (bytes ++ [0x55, 0xaa]) with
  | none => "V model-loader-refuses-the-image"
  | some (d, rest) =>
    if rest != [0x55, 0xaa] then "V loader-does-not-consume-exactly-the-image" else
    if BlocksImg.save d != bytes then "V model-save-differs-from-the-image" else
    if d.maxlength != nat ml || d.cutSize != nat cs || d.stringsQty != nat sq then "V header-differs" else
    if d.parts.length != nat np || d.samples.length != nat np || d.starts.length != nat np then "V part-count-differs" else
    let fs : List Str := (splitComma firsts).map fun h => if h == "e" then [] else unhex h
    if d.samples != fs then "V first-strings-differ" else
    if d.starts != (splitComma starts).map nat then "V starting-ids-differ" else
    let sizes := d.parts.map (·.elements)
    if sizes != (splitComma pel).map nat then "V part-sizes-differ" else
    if sizes.foldl (· + ·) 0 != S.length || d.stringsQty != S.length then "V parts-do-not-add-up-to-the-input" else
    -- running sums and first strings against the input
    let rec go : List Nat → List Nat → List Str → Nat → Bool
      | sz :: szs, st :: sts, f :: fs, acc => st == acc && S[acc]? == some f && go szs sts fs (acc + sz)
      | [], [], [], _ => true
      | _, _, _, _ => false
    if !(go sizes d.starts d.samples 0) then "V starting-ids-or-first-strings-do-not-follow-the-input" else
    "V ok"


/-- The bytes the real `StatCoder::encodeString` wrote for words that put the longest codewords at every bit
offset: the exact model of `encodeSymbol` (32-bit shifts) on the exported table must write the same bytes. -/
def checkEncoder (tbl enc : String) : String :=
  let entries := (splitComma tbl).map fun e =>
    match e.splitOn ":" with
    | [b, c] => (b.toNat?.getD 0, hexNat c)
    | _ => (0, 0)
  let cwOf : Nat → Nat × Nat := fun s => let e := entries.getD s (0, 0); (e.2, e.1)
  let pairs := (enc.splitOn ";").map fun p =>
    match p.splitOn ":" with
    | [w, b] => (unhex w, unhex b)
    | _ => ([], [])
  if pairs.all fun (w, b) => StatCoder.encodeString cwOf (w.map (·.toNat)) 0 0 [] == some (b.map (·.toNat))
  then "V ok" else "V encoder-bytes-differ-from-the-model"

def runCheckStreams (c : Case) (emit : Nat → String → IO Unit) : IO Unit := do
  let mut k := 0
  for op in c.ops do
    k := k + 1
    match op with
    | ["ctchk", kind, tbl] => emit k (checkCodeTable kind tbl)
    | ["ctchk", kind, tbl, enc] =>
      let v := checkCodeTable kind tbl
      emit k (if v == "V ok" then checkEncoder tbl enc else v)
    | ["rpchk", maxchar, input, t, bits, rules, seq] => emit k (checkRePair maxchar input t bits rules seq)
    | ["rdchk", strs, qs, ps, t, rules, seqs, loc, abs, pre] => emit k (checkRpdac strs qs ps t rules seqs loc abs pre)
    | ["hdchk", strs, qs, hs, ts, occ, t, rules, seqs, loc, abs] => emit k (checkHrpdac strs qs hs ts occ t rules seqs loc abs)
    | ["hfchk", strs, qs, hs, ts, occ, t, mc, rules, cls, offs, loc, abs] =>
      emit k (checkHrpf strs qs hs ts occ t mc rules cls offs loc abs)
    | ["rdskip"] => emit k "V ok"
    | ["rpbigchk", v] => emit k (if v == "ok=1" then "V ok" else "V expansion-of-a-large-grammar-differs-from-its-input")
    | ["richk", img, el, ml, t, mc, rules] => emit k (checkRpdacImg img el ml t mc rules)
    | ["hichk", img, el, ml, ts, n, occ] => emit k (checkHrpdacImg img el ml ts n occ)
    | ["bichk", strs, img, ml, cs, sq, np, firsts, starts, pel] => emit k (checkBlocksImg strs img ml cs sq np firsts starts pel)
    | "bv" :: impl :: par :: n :: h :: _ => emit k (bvLine impl (par.toNat?.getD 0) (n.toNat?.getD 0) h)
    | "bvh" :: _ :: _ :: n :: h :: _ =>
      -- long vectors: the harness checks every select and a grid of rank/access against the plain definitions
      -- itself; the specification says nothing differs
      let nn := n.toNat?.getD 0
      let bytes := unhex h
      -- the packing pads the last byte with zeros, so the ones of the vector are the ones of the bytes
      let ones := bytes.foldl (fun a b => a + (List.range 8).foldl (fun c i => c + (b.toNat >>> i) % 2) 0) 0
      emit k s!"BVH n={nn} ones={ones} bad=0 bad_reloaded=0"
    | "wt" :: _ :: syms :: _ => emit k (wtLine syms)
    | _ => emit k "V unparsable-export"

end CSD.Driver
