/-
  Phase-2 validator of the `chunks` stream: the chunked decoding table exported by a real dictionary is
  checked against the hypotheses of `CSD.ChunkDec.processChunk_sound` (`TableOK` with respect to the code
  tree rebuilt from the exported codewords; every index covered), and the model of `processChunk` is
  run on that very table over the same encoded texts as the real routine.
-/
import Std.Data.HashMap
import CSD.Model.ChunkDec
import CSD.Model.StatCoder
import CSD.Model.DACImage
import CSD.Model.Hash
import CSD.Driver.Check

namespace CSD.Driver
open CSD CSD.Codes CSD.ChunkDec

/-- A distinct stream entry as exported: a listed string or a subtree number. -/
inductive RawEntry where
  | str (len bits : Nat) (syms : List Nat)
  | sub (id : Nat)

def parseIntD (s : String) : Int :=
  if s.startsWith "-" then - ((s.drop 1).toNat?.getD 0 : Nat) else ((s.toNat?.getD 0 : Nat) : Int)

/-- The pointer-based `DecodingTree` as a code tree. -/
def mkTree (nodes : Array (Int × Int × Int)) : Nat → Nat → Option Tree
  | 0, _ => none
  | fuel + 1, i =>
    match nodes[i]? with
    | none => none
    | some (sym, c0, c1) =>
      if sym ≠ -1 then some (.leaf sym.toNat)
      else if c0 < 0 ∨ c1 < 0 then none
      else match mkTree nodes fuel c0.toNat, mkTree nodes fuel c1.toNat with
        | some l, some r => some (.node l r)
        | _, _ => none

def packBits (bits : List Bool) : List Nat :=
  let rec go : Nat → List Bool → List Nat
    | 0, _ => []
    | fuel + 1, l =>
      if l.isEmpty then [] else
      let byte := (l.take 8 ++ List.replicate (8 - (l.take 8).length) false)
      bitsVal byte :: go fuel (l.drop 8)
  go (bits.length + 1) bits

def hex2 (n : Nat) : String :=
  let d := "0123456789abcdef".toList
  String.ofList [d.getD (n / 16 % 16) '0', d.getD (n % 16) '0']

/-- Run the model over one encoded text with the test driver's protocol; the trace in the harness's format. -/
def runTrace (table : Nat → Option Entry) (k e0 : Nat) (text : List Nat) (bytes : List Nat) : String × List Nat :=
  let rec go : Nat → Scan → Nat → List String → List Nat → List String × List Nat
    | 0, _, _, acc, outs => (acc.reverse, outs)
    | fuel + 1, c, decoded, acc, outs =>
      if decoded ≥ text.length then (acc.reverse, outs) else
      match processChunk table k c with
      | none => (("MODEL-FAILS" :: acc).reverse, outs)
      | some (out, flag, c') =>
        let line := s!"{String.join (out.map hex2)}/{if flag then 1 else 0}/{c'.strLen}/{c'.advanced}/{c'.extracted}/{c'.pend.length}/{c'.bytes.length}"
        let c2 : Scan := { c' with strLen := c.strLen + out.length }
        let c3 : Scan := if flag then { c2 with extracted := c2.advanced, advanced := 0 } else c2
        go fuel c3 (decoded + out.length) (line :: acc) (outs ++ out)
  let (lines, outs) := go (text.length + 2) { pend := [], bytes := bytes, strLen := 0, advanced := 0, extracted := e0 } 0 [] []
  (",".intercalate lines, outs)

def checkChunks (e0s textsHex ks cws poss ents treess runss encss : String) : String := Id.run do
  let k := ks.toNat?.getD 0
  let e0 := e0s.toNat?.getD 0
  if k == 0 || k > 16 then return "V chunk-width-outside-1..16"
  -- codewords and the code tree
  let cw : Array (Nat × Nat) := ((splitComma cws).map fun e =>
    match e.splitOn ":" with
    | [b, c] => (b.toNat?.getD 0, hexNat c)
    | _ => (0, 0)).toArray
  if cw.size != 256 then return "V bad-codeword-count"
  let codes := (List.range 256).filterMap fun s =>
    let (b, c) := cw[s]!
    if b == 0 then none else some (s, cwBits c b)
  let some t := treeOf 40 codes | return "V codewords-are-not-the-paths-of-a-code-tree"
  let paths := Codes.codes t
  if paths.length != codes.length || !(codes.all fun e => paths.contains e) then return "V codewords-differ-from-tree-paths"
  if Codes.depth t > 64 then return "V tree-deeper-than-64"
  -- subtrees
  let treesRaw : List (Array (Int × Int × Int)) := if treess == "-" then [] else
    (treess.splitOn ";").map fun tr => ((tr.splitOn ",").map fun nd =>
      match nd.splitOn "/" with
      | [a, b, c] => (parseIntD a, parseIntD b, parseIntD c)
      | _ => ((0 : Int), (0 : Int), (0 : Int))).toArray
  let trees : Array (Option Tree) := (treesRaw.map fun nodes => mkTree nodes 80 0).toArray
  -- distinct entries, with the encoding of each listed string computed once
  let mut raw : Std.HashMap Nat (RawEntry × Option (List Bool)) := {}
  if ents != "-" then
    for e in ents.splitOn ";" do
      match e.splitOn ":" with
      | [p, "T", id, _] => raw := raw.insert (p.toNat?.getD 0) (.sub (id.toNat?.getD 0), none)
      | [p, len, bits, syms] =>
        let sy := (unhex syms).map (·.toNat)
        raw := raw.insert (p.toNat?.getD 0) (.str (len.toNat?.getD 0) (bits.toNat?.getD 0) sy, Codes.encode t sy)
      | _ => pure ()
  -- the table, index by index: coverage and `entryOK`
  let mut tbl : Array (Option Entry) := Array.mkEmpty (2 ^ k)
  let mut exact := true     -- no entry swallows padding behind a terminator
  for item in splitComma poss do
    match item.splitOn "*" with
    | [pe, cnt] =>
      match pe.splitOn ":" with
      | [p, e] =>
        let pos := p.toNat?.getD 0
        let ending := e == "1"
        for _ in [0:cnt.toNat?.getD 0] do
          let i := tbl.size
          if pos == 0 then return s!"V index-{i}-has-no-entry"
          match raw[pos]? with
          | none => return s!"V index-{i}-points-outside-the-stream"
          | some (.str len bits syms, enc) =>
            if len != syms.length then return s!"V entry-at-{pos}-truncated"
            -- `entryOK` with the encoding of the string memoised
            if !(syms.length ≥ 1 && syms.length ≤ 15 && bits ≥ 1 && bits ≤ k) then return s!"V index-{i}-entry-does-not-fit-the-control-byte"
            match enc with
            | none => return s!"V index-{i}-symbols-not-encodable"
            | some en =>
              if !(en.length ≤ bits && en == (idxBits k i).take en.length) then
                return s!"V index-{i}-symbols-are-not-the-decoding-of-its-first-bits"
              if en.length != bits then exact := false
              if !(en.length == bits || syms.getLast? == some 0) then
                return s!"V index-{i}-consumes-{bits}-bits-but-its-symbols-take-{en.length}-and-do-not-end-a-string"
            if !(ending == syms.contains 0) then return s!"V index-{i}-endings-bit-wrong"
            tbl := tbl.push (some (.str syms bits ending))
          | some (.sub id, _) =>
            match trees[id]? with
            | some (some st) =>
              let e : Entry := .sub st
              if !entryOK t k i e then return s!"V index-{i}-subtree-{id}-is-not-the-subtree-of-the-code-tree"
              tbl := tbl.push (some e)
            | _ => return s!"V index-{i}-subtree-{id}-missing-or-malformed"
      | _ => return "V unparsable-position-run"
    | _ => return "V unparsable-position-run"
  if tbl.size != 2 ^ k then return s!"V table-has-{tbl.size}-entries"
  let table : Nat → Option Entry := fun i => (tbl[i]?).join
  -- the model of processChunk on the real table over the same texts
  let texts : List (List Nat) := (splitComma textsHex).map fun h => (unhex h).map (·.toNat)
  let runs := if runss == "-" then [] else runss.splitOn "|"
  if runs.length != texts.length then return s!"V runs={runs.length}-texts={texts.length}"
  let encs := if encss == "-" then [] else encss.splitOn "|"
  if encs.length != texts.length then return s!"V encs={encs.length}-texts={texts.length}"
  -- the model of `StatCoder::encodeString` with the exported codewords (`TableMatches` was checked above:
  -- the codewords are the paths of `t`)
  let cwOf : Nat → Nat × Nat := fun s => let (b, c) := cw.getD s (0, 0); (c, b)
  for ((text, run), encImpl) in (texts.zip runs).zip encs do
    match Codes.encode t text with
    | none => if run != "noenc" then return "V text-not-encodable-but-code-ran"
    | some bits =>
      let some bytes := StatCoder.encodeString cwOf text 0 0 [] | return "V model-encoder-fails"
      let implBytes := match encImpl.splitOn ":" with
        | [h, _] => (unhex h).map (·.toNat)
        | _ => []
      if bytes != implBytes then return s!"V encodeString-bytes-differ model={String.join (bytes.map hex2)} code={encImpl}"
      if bytes != packBits bits then return "V encodeString-bytes-are-not-the-packed-codewords"
      let (trace, outs) := runTrace table k e0 text bytes
      if trace != run then return s!"V model-trace-differs model={trace} code={run}"
      -- with padding-swallowing entries (RPHTFC headers) only the first NUL-terminated string of a text is
      -- guaranteed: what follows a terminator starts at the next byte in that format
      let upto := if exact then text.length else (match text.findIdx? (· == 0) with | some i => i + 1 | none => text.length)
      if outs.take upto != text.take upto then return "V decoded-symbols-differ-from-the-text"
  return "V ok"

def runChunkStream (c : Case) (emit : Nat → String → IO Unit) : IO Unit := do
  let mut k := 0
  for op in c.ops do
    k := k + 1
    match op with
    | ["chchk", e0, texts, kk, cw, pos, ent, trees, runs, encs] => emit k (checkChunks e0 texts kk cw pos ent trees runs encs)
    | ["rdskip"] => emit k "V ok"
    | _ => emit k "V unparsable-export"

/-- The saved image of a real DAC_VLS and the fields of the object (`dimg`): the fields satisfy the
hypotheses of `CSD.DACImg.loadImg_saveImg`, serialise to exactly the image, and the image parses back to them. -/
def checkDacImg (img tam ll nl bb li lv rl bn bf bd br : String) : String :=
  let nat (s : String) := s.toNat?.getD 0
  let lst (s : String) : List Nat := (splitComma s).map nat
  let bsImg : RG.Img := { n := nat bn, factor := nat bf, data := lst bd, Rs := lst br }
  let d : DACImg.Img := {
    tamCode := nat tam, listLength := nat ll, nLevels := nat nl, baseBits := nat bb,
    levelsIndex := lst li, levels := lst lv, rankLevels := lst rl, bs := bsImg }
  let w32 (l : List Nat) := l.all (· < 2 ^ 32)
  -- the hypotheses `WF`
  if !(d.levelsIndex.length == d.nLevels + 1 && d.levels.length == d.tamCode / 32 + 1 && d.rankLevels.length == d.nLevels) then
    "V array-lengths-differ-from-what-load-recomputes" else
  if !(d.bs.factor > 0 && d.bs.data.length == d.bs.n / 32 + 1 && d.bs.Rs.length == d.bs.n / (32 * d.bs.factor) + 1) then
    "V bitmap-array-lengths-differ-from-what-load-recomputes" else
  if !(w32 d.levelsIndex && w32 d.levels && w32 d.rankLevels && w32 d.bs.data && w32 d.bs.Rs && d.baseBits < 2 ^ 16) then
    "V field-out-of-range" else
  let bytes := unhex img
  if DACImg.saveImg d != bytes then "V model-save-differs-from-the-image" else
  match DACImg.loadImg (bytes ++ [0x55, 0xaa]) with
  | some (d', [0x55, 0xaa]) => if d' == d then "V ok" else "V image-parses-to-different-fields"
  | some _ => "V loader-does-not-consume-exactly-the-image"
  | none => "V model-loader-refuses-the-image"

def runDacImg (c : Case) (emit : Nat → String → IO Unit) : IO Unit := do
  let mut k := 0
  for op in c.ops do
    k := k + 1
    match op with
    | ["dichk", img, tam, ll, nl, bb, li, lv, rl, bn, bf, bd, br] => emit k (checkDacImg img tam ll nl bb li lv rl bn bf bd br)
    | _ => emit k "V unparsable-export"

/-- HASHHF / HASHUFFDAC: the keys of the hash table are the Huffman-coded strings. With the exported
codewords the model of `StatCoder::encodeString` re-encodes every string (terminator included), the
double-hashing model builds the table from those keys in input order, and every ID the real `locate`
returned must be the rank of the key's cell; the hypotheses of the hash theorems (`GoodDict`: distinct
keys, the table holds them, accepted size) are checked. -/
def checkHhf (strsHex queriesHex hs ts occ cws loc abs : String) : String :=
  let S : List Str := (splitComma strsHex).map unhex
  let Q : List Str := (splitComma queriesHex).map unhex
  let cw : Array (Nat × Nat) := ((splitComma cws).map fun e =>
    match e.splitOn ":" with
    | [b, c] => (b.toNat?.getD 0, hexNat c)
    | _ => (0, 0)).toArray
  if cw.size != 256 then "V bad-codeword-count" else
  let cwOf : Nat → Nat × Nat := fun s => let (b, c) := cw.getD s (0, 0); (c, b)
  let keyOf (s : Str) : Option Str :=
    if (s.any fun b => (cw.getD b.toNat (0, 0)).1 == 0) || (cw.getD 0 (0, 0)).1 == 0 then none else
    (StatCoder.encodeString cwOf (s.map (·.toNat) ++ [0]) 0 0 []).map fun l => l.map (·.toUInt8)
  match S.mapM keyOf with
  | none => "V a-member-has-no-codeword"
  | some keys =>
    if !(keys.eraseDups.length == keys.length) then "V two-strings-have-the-same-coded-key" else
    let d := Hash.build (hs.toNat?.getD 0) keys
    if d.tsize != ts.toNat?.getD 0 then s!"V table-size model={d.tsize} code={ts}" else
    if !(d.tsize % 2 != 0 && Hash.oddTrial d.tsize (Nat.sqrt d.tsize + 2) 3) then "V table-size-not-accepted-by-nearest_prime" else
    if !(S.length ≤ hs.toNat?.getD 0) then "V requested-size-below-the-number-of-strings" else
    let modOcc := String.ofList (d.table.map fun c => if c.isSome then '1' else '0')
    if modOcc != occ then "V occupancy-bitmap-differs" else
    let implLoc := (splitComma loc).map fun x => x.toNat?.getD 0
    let implAbs := (splitComma abs).map fun x => x.toNat?.getD 0
    let modLoc := keys.map (Hash.locate d)
    if modLoc != implLoc then "V model-IDs-differ-from-code-on-a-member" else
    if modLoc.mergeSort != (List.range S.length).map (· + 1) then "V IDs-are-not-a-bijection-onto-1..n" else
    let modAbs := Q.map fun q => match keyOf q with
      | some k => Hash.locate d k
      | none => 0
    if modAbs != implAbs then "V model-IDs-differ-from-code-on-a-query" else
    if !(modAbs.zip Q).all (fun (r, q) => (r == 0) == !(S.contains q)) then "V absent-query-not-answered-0" else
    "V ok"

def runHhf (c : Case) (emit : Nat → String → IO Unit) : IO Unit := do
  let mut k := 0
  for op in c.ops do
    k := k + 1
    match op with
    | ["hhchk", strs, qs, hs, ts, occ, cw, loc, abs] => emit k (checkHhf strs qs hs ts occ cw loc abs)
    | ["rdskip"] => emit k "V ok"
    | _ => emit k "V unparsable-export"

/-- The size sweep (`sweep lo hi step`): the harness builds, saves, reloads and probes one dictionary per
size and checks the answers against the strings themselves; the specification says no size fails. -/
def runSweep (c : Case) (emit : Nat → String → IO Unit) : IO Unit := do
  let mut k := 0
  for op in c.ops do
    k := k + 1
    match op with
    | ["sweep", lo, hi, step] =>
      let lo := lo.toNat?.getD 0; let hi := min (hi.toNat?.getD 0) c.strs.size; let st := max 1 (step.toNat?.getD 1)
      let runs := if hi < lo then 0 else (hi - lo) / st + 1
      emit k s!"SW runs={runs} bad=0 first=0"
    | _ => emit k "ERR unknown-op"

end CSD.Driver

