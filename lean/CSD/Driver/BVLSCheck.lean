/-
  Phase-2 validator of the `bvls` stream: the `DAC_BVLS` object of a real HASHUFFDAC dictionary must be
  the level layout `DAC.build` derives from the sequences it returns (the object `CSD.DAC.access_build` is
  about), and the model of `access` run on the exported fields must return every sequence.
  `DAC_BVLS` keeps one bit per entry of every level (the last level's bits are 0) where `DAC_VLS` keeps the
  bits of levels `0 … n-2` and a final mark; `access` reads the bits of levels `0 … n-2` only.
-/
import CSD.Model.DAC
import CSD.Driver.Util

namespace CSD.Driver
open CSD

private def bvNats (s : String) : List Nat :=
  if s == "-" || s == "" then [] else (s.splitOn ",").map fun x => x.toNat?.getD 0

def checkBvls (n tam idx bits rl lv acc nxt : String) : String :=
  if acc == "-" then "V no-export" else
  let L : List (List Nat) := (acc.splitOn ";").map bvNats
  let N : List (List Nat) := (nxt.splitOn ";").map bvNats
  let b := DAC.build L
  let xbits : List Bool := if bits == "-" then [] else bits.toList.map (· == '1')
  let x : DAC.T := { nLevels := n.toNat?.getD 0, listLength := L.length, vals := bvNats lv, levelsIndex := bvNats idx,
                     bits := xbits, rankLevels := bvNats rl }
  if L.any (·.isEmpty) then "V empty-sequence" else
  if x.nLevels != b.nLevels then s!"V levels model={b.nLevels} code={x.nLevels}" else
  if tam.toNat?.getD 0 != x.vals.length then "V tamCode-differs-from-the-number-of-entries" else
  if x.levelsIndex != b.levelsIndex then "V levelsIndex-differs-from-the-model-layout" else
  if x.vals != b.vals then "V level-entries-differ-from-the-model-layout" else
  if x.rankLevels != b.rankLevels then "V rankLevels-differ-from-the-model-layout" else
  if xbits.take (b.bits.length - 1) != b.bits.dropLast then "V continuation-bits-differ-from-the-model-layout" else
  if (xbits.drop (b.bits.length - 1)).any id then "V a-bit-of-the-last-level-is-set" else
  if !((List.range L.length).all fun i => DAC.access x (i + 1) == L[i]?) then "V model-access-on-the-exported-fields-differs" else
  if N != L then "V access_next-chain-differs-from-access" else
  "V ok"

def runBvlsStream (c : Case) (emit : Nat → String → IO Unit) : IO Unit := do
  let mut k := 0
  for op in c.ops do
    k := k + 1
    match op with
    | ["bvchk", n, tam, idx, bits, rl, lv, acc, nxt] => emit k (checkBvls n tam idx bits rl lv acc nxt)
    | ["rdskip"] => emit k "V ok"
    | _ => emit k "V unparsable-export"

end CSD.Driver
