/-
  Expected answers for the `dict` stream.  Kinds that have an exact model
  (CSD/Model/*) answer through the model; the others answer through the
  specification, with `?` where the specification does not fix the value
  (hash-kind IDs, image bytes).
-/
import CSD.Spec
import CSD.Driver.Util

namespace CSD.Driver

/-- What the driver needs to know about one kind. `none` = not fixed (`?`). -/
structure DictModel where
  S : List Str
  numElements : Nat
  maxLength : Nat
  ordered : Bool            -- IDs are lexicographic ranks
  rankOps : Bool := true    -- answers locateRank/extractRank
  /-- the kind's ID of the string with lexicographic rank `i` (1-based); `none` = not fixed -/
  idOf : Nat → Option Nat := fun i => some i
  hasPrefix : Bool
  hasSubstr : Bool
  hasTable : Bool
  locate : Str → Option Nat
  extract : Nat → Option (Option Str)
  image : Option (List UInt8) := none
  /-- exact kinds with a model of their prefix search: the ID range, `(0,0)` = none, `none` = model fault -/
  prefixRange : Option (Str → Option (Nat × Nat)) := none
  /-- exact kinds with a model of `extractPrefix`: `some none` = NULL, `none` = model fault -/
  prefixStrings : Option (Str → Option (Option (List Str))) := none
  /-- exact kinds with a model of `extractTable`: the drained iterator, `none` = model fault -/
  tableScan : Option (Option (List Str)) := none
  /-- exact kinds with a model of their loader: given the stream (image ++ trailer), the answers of
  the reloaded object (locate, extract, numElements, maxLength, its own re-saved image) and the rest
  of the stream -/
  reload : Option (List UInt8 → Option ((Str → Option Nat) × (Nat → Option (Option Str)) × Nat × Nat ×
    Option (List UInt8) × List UInt8)) := none
  exact : Bool := false      -- answers come from an exact model: `none` is a model fault, not "unknown"

def isHashKind (k : String) : Bool :=
  k == "HASHHF" || k == "HASHRPF" || k == "HASHUFFDAC" || k == "HASHRPDAC" || k == "BLOCKS"

/-- XBW numbers its strings by the rank of the terminator leaf in XBW order,
i.e. by the lexicographic rank of the *reversed* string (co-lexicographic
order).  `colexId S i` = XBW ID of the string with lexicographic rank `i`. -/
def colexId (S : List Str) (i : Nat) : Nat :=
  match S[i - 1]? with
  | none => 0
  | some s => 1 + (S.filter fun t => slt t.reverse s.reverse).length

/-- The specification-level model of a kind. -/
def specModel (c : Case) : DictModel :=
  let S := c.strs.toList
  let k := c.kind
  let hash := isHashKind k
  let xbw := k == "XBW"
  let n := S.length
  let idOf : Nat → Option Nat := fun i => if hash then none else if xbw then some (colexId S i) else some i
  -- inverse of idOf, as a table
  let inv : List (Nat × Nat) := if xbw then (List.range n).map (fun j => (colexId S (j + 1), j + 1)) else []
  { S := S
    numElements := n
    maxLength := if k == "BLOCKS" then Spec.maxLen S else Spec.maxLen S + 1
    ordered := !hash && !xbw
    rankOps := !hash
    idOf := idOf
    hasPrefix := !hash
    hasSubstr := (k == "FMINDEX" && c.geti "bwt" 4 > 0) || xbw
    hasTable := !xbw
    locate := fun q =>
      let r := Spec.locate S q
      if r = 0 then some 0 else idOf r
    extract := fun i =>
      if i = 0 || i > n then some none
      else if hash then none
      else if xbw then some ((inv.lookup i).bind (Spec.extract S))
      else some (Spec.extract S i) }

def mapIds (m : DictModel) (ids : List Nat) : List Nat :=
  let l := ids.filterMap m.idOf
  if m.ordered then l else l.mergeSort

structure IterState where
  ids : Option (List Nat) := none
  strs : Option (List Str) := none

def strOrNull (o : Option Str) : String :=
  match o with
  | none => "NULL"
  | some s => if s.isEmpty then "e" else hexOfBytes s

def runDict (c : Case) (m : DictModel) (emit : Nat → String → IO Unit) : IO Unit := do
  let mut k := 0
  let mut open_ : List (String × IterState) := []
  let S := m.S
  let mut m := m
  for op in c.ops do
    k := k + 1
    match op with
    | ["loc", h] =>
      match m.locate (unhex h) with
      | some i => emit k s!"L {i}"
      | none => emit k (if m.exact then "L MODEL-FAULT" else "L ?")
    | ["rt", h] =>
      let q := unhex h
      if Spec.locate S q = 0 then emit k "RT 0" else emit k s!"RT {hexOfBytes q} inrange=1"
    | ["ext", i] =>
      let i := i.toNat?.getD 0
      match m.extract i with
      | some none => emit k "E NULL 0"
      | some (some s) => emit k s!"E {strOrNull (some s)}"
      | none => emit k (if m.exact then "E MODEL-FAULT" else "E ?")
    | ["exts"] => emit k s!"XS {joinStrs (sortStrs S)}"
    | ["pre", h] =>
      match m.prefixRange with
      | some f =>
        match f (unhex h) with
        | none => emit k "P MODEL-FAULT"
        | some (lo, hi) =>
          let ids := if lo = 0 then [] else (List.range (hi + 1 - lo)).map (· + lo)
          -- the modelled search must also agree with the specification
          if ids == Spec.prefixIds S (unhex h) then emit k s!"P {joinIds ids}" else emit k s!"P MODEL-DIFFERS-FROM-SPEC {joinIds ids}"
      | none => emit k s!"P {joinIds (mapIds m (if m.hasPrefix then Spec.prefixIds S (unhex h) else []))}"
    | ["sub", h] => emit k s!"B {joinIds (mapIds m (if m.hasSubstr then Spec.substrIds S (unhex h) else []))}"
    | ["xpre", h] =>
      let ids := if m.hasPrefix then Spec.prefixIds S (unhex h) else []
      let spec := ids.filterMap (Spec.extract S)
      match m.prefixStrings with
      | some f =>
        match f (unhex h) with
        | none => emit k "XP MODEL-FAULT"
        | some r =>
          -- the modelled range scan must also agree with the specification (NULL = nothing)
          if r.getD [] == spec && (r.isNone == spec.isEmpty) then emit k s!"XP {joinStrs spec}"
          else emit k s!"XP MODEL-DIFFERS-FROM-SPEC {joinStrs (r.getD [])}"
      | none => emit k s!"XP {joinStrs spec}"
    | ["xsub", h] =>
      let ids := if m.hasSubstr then Spec.substrIds S (unhex h) else []
      emit k s!"XB {joinStrs (ids.filterMap (Spec.extract S))}"
    | ["lrk", r] =>
      let r := r.toNat?.getD 0
      if !m.rankOps then emit k "LR 0"
      else if 1 ≤ r && r ≤ m.numElements then
        match m.idOf r with
        | some i => emit k s!"LR {i}"
        | none => emit k "LR ?"
      else emit k "LR ?"
    | ["xrk", r] =>
      let r := r.toNat?.getD 0
      if !m.rankOps then emit k "XR NULL"
      else emit k s!"XR {strOrNull (Spec.extract S r)}"
    | ["tab"] =>
      if !m.hasTable then emit k "T -"
      else
        -- what the scan must yield: the sorted input, or `extract(1) … extract(n)` for kinds whose IDs are not ranks
        let expected : Option (List Str) :=
          if m.ordered then some S
          else ((List.range m.numElements).mapM (fun i => m.extract (i + 1))).map (·.filterMap id)
        match m.tableScan, expected with
        | some none, _ => emit k "T MODEL-FAULT"
        | some (some l), some e => if l == e then emit k s!"T {joinStrs e}" else emit k s!"T MODEL-DIFFERS-FROM-SPEC {joinStrs l}"
        | _, some e => emit k s!"T {joinStrs e}"
        | _, none => emit k "T ?"
    | ["tabs"] => emit k s!"T {if m.hasTable then joinStrs (sortStrs S) else "-"}"
    | ["tabh"] =>
      if !m.hasTable then emit k s!"TH 0 {hex16 fnvInit}"
      else emit k s!"TH {S.length} {hex16 (S.foldl (fun h x => fnvStep (fnvBytes h x) 0) fnvInit)}"
    | ["xph", h] =>
      let l := if m.hasPrefix then (Spec.prefixIds S (unhex h)).filterMap (Spec.extract S) else []
      emit k s!"XH {l.length} {hex16 (l.foldl (fun h x => fnvStep (fnvBytes h x) 0) fnvInit)}"
    | ["tabx"] => emit k (if m.hasTable then s!"TX {m.numElements} bad=0" else "TX 0 bad=0")
    | ["meta"] =>
      -- the model's own value must satisfy the same bound the harness checks on the real object
      let longest := Spec.maxLen S
      emit k (if longest ≤ m.maxLength && m.maxLength ≤ longest + 1 then s!"M {m.numElements} ok"
              else s!"M {m.numElements} MODEL-BAD")
    | ["save"] =>
      match m.image with
      | some img => emit k s!"S {img.length} {hex16 (fnvBytes fnvInit img)}"
      | none => emit k "S ? ?"
    | ["image"] =>
      match m.image with
      | some img => emit k s!"I {hexOfBytes img}"
      | none => emit k "I ?"
    | ["save2"] => emit k "S2 same"
    | "blocksdet" :: _ => emit k "BD same"
    | "reload" :: _ =>
      -- a modelled loader really parses the image (followed by a trailer it must leave alone)
      match m.reload, m.image with
      | some ld, some img =>
        let trailer : List UInt8 := [0xde, 0xad, 0xbe, 0xef]
        match ld (img ++ trailer) with
        | some (loc, ext, n, ml, img', rest) =>
          if rest == trailer then
            m := { m with locate := loc, extract := ext, numElements := n, maxLength := ml, image := img' }
            emit k "R ok consumed=all"
          else emit k s!"R ok consumed=MODEL-{rest.length}"
        | none => emit k "R MODEL-FAULT"
      | _, _ => emit k "R ok consumed=all"
    | "resave" :: _ =>
      match m.reload, m.image with
      | some ld, some img =>
        match ld img with
        | some (_, _, _, _, some img', []) => emit k (if img' == img then "RS same" else "RS MODEL-DIFF")
        | _ => emit k "RS MODEL-FAULT"
      | _, _ => emit k "RS same"
    | "foreign" :: _ => emit k "F NULL"
    | "badtag" :: _ => emit k "BT NULL"      -- the generator only uses tags that name no kind
    | "iopen" :: name :: what :: rest =>
      let p := unhex (rest.headD "-")
      let st : IterState :=
        match what with
        | "pre" => if m.hasPrefix then { ids := some (mapIds m (Spec.prefixIds S p)) } else {}
        | "sub" => if m.hasSubstr then { ids := some (mapIds m (Spec.substrIds S p)) } else {}
        | "xpre" =>
          let l := (Spec.prefixIds S p).filterMap (Spec.extract S)
          if m.hasPrefix && !l.isEmpty then { strs := some l } else {}
        | "xsub" =>
          let l := (Spec.substrIds S p).filterMap (Spec.extract S)
          if m.hasSubstr && !l.isEmpty then { strs := some l } else {}
        | "tab" => if m.hasTable && m.ordered then { strs := some S } else {}
        | _ => {}
      open_ := (name, st) :: open_.filter (·.1 != name)
      emit k (if what == "xpre" || what == "xsub" then "IO ?" else
              if st.ids.isSome || st.strs.isSome then "IO open" else "IO null")
    | ["inext", name, cnt] =>
      let cnt := cnt.toNat?.getD 0
      match open_.lookup name with
      | some st =>
        match st.ids, st.strs with
        | some l, _ =>
          emit k s!"IN {joinIds (l.take cnt)}"
          open_ := (name, { ids := some (l.drop cnt) }) :: open_.filter (·.1 != name)
        | none, some l =>
          emit k s!"IN {joinStrs (l.take cnt)}"
          open_ := (name, { strs := some (l.drop cnt) }) :: open_.filter (·.1 != name)
        | none, none => emit k "IN -"
      | none => emit k "IN -"
    | ["iclose", name] =>
      open_ := open_.filter (·.1 != name)
      emit k "IC"
    | _ => emit k "ERR unknown-op"
  emit (k + 1) "END"

end CSD.Driver
