/-
  `StringDictionaryHASHRPDAC::locate` as executable model: double hashing over the table, the string
  of a cell compared through the grammar at the DAC position given by the cell's rank.
  (The theorems about it are in `CSD/Lemmas/HashRP.lean`.)
-/
import CSD.Model.Hash
import CSD.Model.RPDAC

namespace CSD.Hash
open CSD CSD.RePair

/-- Bytes as the symbol numbers the grammar works with. -/
def natBytes (s : Str) : List Nat := s.map (·.toNat)

/-- The probe function of the real `locate`: `none` = go on, `some none` = a comparison read out of
bounds, `some (some r)` = answer `r`. -/
def lfRP (d : HDict) (g : Grammar) (seqs : List (List Nat)) (q : Str) (i : Nat) : Option (Option Nat) :=
  match d.table.getD (probe (bitwisehash q d.tsize) (stepValue q d.tsize) d.tsize i) none with
  | none => some (some 0)
  | some _ =>
    let pos := rankOcc d.table (probe (bitwisehash q d.tsize) (stepValue q d.tsize) d.tsize i)
    match seqs[pos - 1]? with
    | none => some none
    | some syms =>
      match RPDAC.compareDAC g syms (natBytes q) with
      | none => some none
      | some c => if c = 0 then some (some pos) else none

/-- `StringDictionaryHASHRPDAC::locate`. -/
def locateRP (d : HDict) (g : Grammar) (seqs : List (List Nat)) (q : Str) : Option Nat :=
  match (List.range d.tsize).findSome? (lfRP d g seqs q) with
  | none => some 0
  | some r => r

/-! ### HASHRPF: the strings are stored one after the other in one symbol sequence (`Cls`), each closed
by the terminator `maxchar`; a cell holds the offset of its string. -/

/-- The loop of `RePair::extractStringAndCompareRP` over the symbols from the string's offset on
(`while (pos <= strLen)`): `none` = a read outside the sequence or outside the pattern buffer. -/
def cmpStream (g : Grammar) (buf : List Nat) (strLen : Nat) : Nat → List Nat → Nat → Option Int
  | 0, _, _ => none
  | fuel + 1, stream, pos =>
    if pos ≤ strLen then
      match stream with
      | [] => none
      | s :: rest =>
        let r := if s ≥ g.terminals then RPDAC.cmpRule g buf (g.rules.length + 1) (s - g.terminals) pos
                 else RPDAC.cmpTerm buf s pos
        match r with
        | none => none
        | some (c, p) => if c ≠ 0 then some c else cmpStream g buf strLen fuel rest p
    else some 0

/-- `extractStringAndCompareRP(offset, str, strLen)` (with the guard against patterns containing `maxchar`). -/
def compareRP (g : Grammar) (maxchar : Nat) (stream : List Nat) (q : List Nat) : Option Int :=
  if q.any (· == maxchar) then some 1
  else cmpStream g (q ++ [maxchar]) q.length (q.length + 2) stream 0

/-- The probe function of `StringDictionaryHASHRPF::locate`; `offs` gives the offset stored in a cell. -/
def lfRPF (d : HDict) (g : Grammar) (maxchar : Nat) (cls : List Nat) (offs : Nat → Nat) (q : Str) (i : Nat) :
    Option (Option Nat) :=
  let cell := probe (bitwisehash q d.tsize) (stepValue q d.tsize) d.tsize i
  match d.table.getD cell none with
  | none => some (some 0)
  | some _ =>
    match compareRP g maxchar (cls.drop (offs cell)) (natBytes q) with
    | none => some none
    | some c => if c = 0 then some (some (rankOcc d.table cell)) else none

/-- `StringDictionaryHASHRPF::locate`. -/
def locateRPF (d : HDict) (g : Grammar) (maxchar : Nat) (cls : List Nat) (offs : Nat → Nat) (q : Str) : Option Nat :=
  match (List.range d.tsize).findSome? (lfRPF d g maxchar cls offs q) with
  | none => some 0
  | some r => r

end CSD.Hash
