/-
  `StringDictionaryHASHRPDAC::locate` as executable model: double hashing over the table, the string
  of a cell compared through the grammar at the DAC position given by the cell's rank.
  (The theorems about it are in `CSD/Lemmas/HashRP.lean`.)
-/
import CSD.Model.Hash
import CSD.Model.RPDAC

namespace CSD.Hash
open CSD CSD.RePair

/-- Bytes as the symbol numbers the grammar works with. -/
def natBytes (s : Str) : List Nat := s.map (·.toNat)

/-- The probe function of the real `locate`: `none` = go on, `some none` = a comparison read out of
bounds, `some (some r)` = answer `r`. -/
def lfRP (d : HDict) (g : Grammar) (seqs : List (List Nat)) (q : Str) (i : Nat) : Option (Option Nat) :=
  match d.table.getD (probe (bitwisehash q d.tsize) (stepValue q d.tsize) d.tsize i) none with
  | none => some (some 0)
  | some _ =>
    let pos := rankOcc d.table (probe (bitwisehash q d.tsize) (stepValue q d.tsize) d.tsize i)
    match seqs[pos - 1]? with
    | none => some none
    | some syms =>
      match RPDAC.compareDAC g syms (natBytes q) with
      | none => some none
      | some c => if c = 0 then some (some pos) else none

/-- `StringDictionaryHASHRPDAC::locate`. -/
def locateRP (d : HDict) (g : Grammar) (seqs : List (List Nat)) (q : Str) : Option Nat :=
  match (List.range d.tsize).findSome? (lfRP d g seqs q) with
  | none => some 0
  | some r => r

end CSD.Hash
