/-
  Model of the prefix search of `StringDictionaryPFC`: `locateBoundaryBuckets` (three binary searches
  on the bucket headers with `strncmp`), `searchPrefix`, `searchDistinctPrefix`, `locatePrefix`.
  As everywhere in the PFC model a pointer is the remaining suffix of the text and a read outside
  an allocation is `none`.
-/
import CSD.Model.PFC

namespace CSD.PFC

/-- `strncmp(header, str, strLen)` on a NUL-terminated header. -/
def ncmp (hdr p : Str) : Int := scmp (hdr.take p.length) p

/-- Header of bucket `k` and the pointer behind it. -/
def hdrOf (d : T) (k : Nat) : Option (Str × List UInt8) :=
  match bucketPtr d k with
  | none => none
  | some ptr => readCStr ptr

/-- First loop of `locateBoundaryBuckets`: state `(left, right, center, cmp)` at its exit. -/
def bbFirst (d : T) (p : Str) : Nat → Nat → Nat → Nat → Int → Option (Nat × Nat × Nat × Int)
  | 0, _, _, _, _ => none
  | fuel + 1, left, right, center, cmp =>
    if left ≤ right then
      let center := (left + right) / 2
      match hdrOf d center with
      | none => none
      | some (hdr, _) =>
        let cmp := ncmp hdr p
        if cmp > 0 then bbFirst d p fuel left (center - 1) center cmp
        else if cmp < 0 then bbFirst d p fuel (center + 1) right center cmp
        else some (left, right, center, 0)
    else some (left, right, center, cmp)

/-- Left boundary loop: final `lr`. -/
def bbLeft (d : T) (p : Str) : Nat → Nat → Nat → Option Nat
  | 0, _, _ => none
  | fuel + 1, ll, lr =>
    if ll ≤ lr then
      let lc := (ll + lr) / 2
      match hdrOf d lc with
      | none => none
      | some (hdr, _) => if ncmp hdr p = 0 then bbLeft d p fuel ll (lc - 1) else bbLeft d p fuel (lc + 1) lr
    else some lr

/-- Right boundary loop: final `rl`. -/
def bbRight (d : T) (p : Str) : Nat → Nat → Nat → Option Nat
  | 0, _, _ => none
  | fuel + 1, rl, rr =>
    if rl < rr - 1 then
      let rc := (rl + rr) / 2
      match hdrOf d rc with
      | none => none
      | some (hdr, _) => if ncmp hdr p = 0 then bbRight d p fuel rc rr else bbRight d p fuel rl rc
    else some rl

/-- `locateBoundaryBuckets(str, strLen, &left, &right)` from `left = 1`, `right = buckets`. -/
def boundaryBuckets (d : T) (p : Str) : Option (Nat × Nat) :=
  match bbFirst d p (d.buckets + 1) 1 d.buckets 0 0 with
  | none => none
  | some (left, right, center, cmp) =>
    if cmp ≠ 0 then
      if cmp < 0 then some (center, center) else some (center - 1, center - 1)
    else
      let l := if center > 1 then
          match bbLeft d p (d.buckets + 1) left (center - 1) with
          | none => none
          | some lr => some (if lr > 0 then lr else 1)
        else some left
      let r := if center < d.buckets then bbRight d p (d.buckets + 2) center (right + 1) else some right
      match l, r with
      | some l, some r => some (l, r)
      | _, _ => none

/-- `longestCommonPrefix(a, b, |a|, &shared)`: `b` is the pattern's buffer from the same offset. -/
def lcpLoop : Str → List UInt8 → Nat → Option (Int × Nat)
  | [], _, n => some (0, n)
  | _ :: _, [], _ => none
  | x :: as, y :: bs, n => if x ≠ y then some ((x.toNat : Int) - y.toNat, n) else lcpLoop as bs (n + 1)

/-- `searchPrefix`: in-bucket position (1-based) of the first string having the prefix, 0 if none;
also the pointer behind that string and the decoded string (input of `searchDistinctPrefix`). -/
def searchPrefixLoop (q : Str) : Nat → Nat → Nat → List UInt8 → Str → Nat → Option (Nat × List UInt8 × Str)
  | 0, _, _, _, _, _ => none
  | fuel + 1, id, scanneable, ptr, decoded, sharedCurr =>
    match lcpLoop (decoded.drop sharedCurr) ((q ++ [0]).drop sharedCurr) sharedCurr with
    | none => none
    | some (cmp, shared) =>
      if shared = q.length then some (id, ptr, decoded)
      else if cmp > 0 ∨ id + 1 > scanneable then some (0, ptr, decoded)
      else match VByte.decode ptr with
        | none => none
        | some (sharedPrev, used) =>
          if sharedPrev < shared then some (0, ptr, decoded)
          else if sharedPrev > decoded.length then none
          else match readCStr (ptr.drop used) with
            | none => none
            | some (suffix, rest) =>
              searchPrefixLoop q fuel (id + 1) scanneable rest (decoded.take sharedPrev ++ suffix) shared

/-- `searchDistinctPrefix`: one more than the number of following strings that keep the prefix. -/
def searchDistinctLoop (plen : Nat) : Nat → Nat → Nat → List UInt8 → Str → Option Nat
  | 0, _, _, _, _ => none
  | fuel + 1, id, scanneable, ptr, decoded =>
    if id ≤ scanneable then
      match VByte.decode ptr with
      | none => none
      | some (lenPrefix, used) =>
        if lenPrefix < plen then some id
        else if lenPrefix > decoded.length then none
        else match readCStr (ptr.drop used) with
          | none => none
          | some (suffix, rest) => searchDistinctLoop plen fuel (id + 1) scanneable rest (decoded.take lenPrefix ++ suffix)
    else some id

def scanneableOf (d : T) (k : Nat) : Nat :=
  if k = d.buckets ∧ d.elements % d.bucketsize ≠ 0 then d.elements % d.bucketsize else d.bucketsize

/-- `StringDictionaryPFC::locatePrefix`: the ID range, `(0, 0)` for no match. -/
def locatePrefix (d : T) (q : Str) : Option (Nat × Nat) :=
  match boundaryBuckets d q with
  | none => none
  | some (leftBucket, rightBucket) =>
    if leftBucket = 0 then some (0, 0) else
    match hdrOf d leftBucket with
    | none => none
    | some (hdr, ptr) =>
      let sc := scanneableOf d leftBucket
      match searchPrefixLoop q (sc + 1) 1 sc ptr hdr 0 with
      | none => none
      | some (leftID, ptr', decoded) =>
        if leftBucket = rightBucket then
          if leftID = 0 then some (0, 0)
          else match searchDistinctLoop q.length (sc + 1) 1 (sc - leftID) ptr' decoded with
            | none => none
            | some cnt => some (leftID + (leftBucket - 1) * d.bucketsize, leftID + cnt - 1 + (rightBucket - 1) * d.bucketsize)
        else
          let left := if leftID = 0 then leftBucket * d.bucketsize + 1 else leftID + (leftBucket - 1) * d.bucketsize
          match hdrOf d rightBucket with
          | none => none
          | some (hdr2, ptr2) =>
            let sc2 := scanneableOf d rightBucket
            match searchDistinctLoop q.length (sc2 + 1) 1 (sc2 - 1) ptr2 hdr2 with
            | none => none
            | some cnt => some (left, cnt + (rightBucket - 1) * d.bucketsize)

/-- `StringDictionaryPFC::extractPrefix`: `some none` = NULL (no member starts with the pattern). -/
def extractPrefix (d : T) (q : Str) : Option (Option (List Str)) :=
  match locatePrefix d q with
  | none => none
  | some (left, right) =>
    if left = 0 then some none
    else match scanRange d left right with
      | none => none
      | some l => some (some l)

end CSD.PFC
