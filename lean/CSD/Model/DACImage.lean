/-
  Model of `DAC_VLS::save` / `DAC_VLS::load` (`utils/DAC_VLS.cpp`) on bytes: four scalar fields, the level
  index, the packed level words, the rank samples, and the continuation bitmap as a `BitSequenceRG` image
  (`BitSequence::load` dispatches on the type tag; only the tag of BitSequenceRG is modelled — it is the only
  bitmap a DAC_VLS is built with).
-/
import CSD.Model.RGImage

namespace CSD.DACImg
open CSD.LogSeq (leBytes fromLE readLE)
open CSD.RG (le32s words32)

structure Img where
  tamCode : Nat
  listLength : Nat
  nLevels : Nat
  baseBits : Nat
  levelsIndex : List Nat     -- nLevels + 1 entries
  levels : List Nat          -- tamCode / 32 + 1 words of packed fields
  rankLevels : List Nat      -- nLevels entries
  bs : RG.Img
  deriving Repr, DecidableEq

/-- `DAC_VLS::save`. -/
def saveImg (d : Img) : List UInt8 :=
  leBytes d.tamCode 4 ++ leBytes d.listLength 4 ++ leBytes d.nLevels 4 ++ leBytes d.baseBits 2 ++
    le32s d.levelsIndex ++ le32s d.levels ++ le32s d.rankLevels ++ RG.saveImg d.bs

/-- `DAC_VLS::load`. -/
def loadImg (inp : List UInt8) : Option (Img × List UInt8) :=
  match readLE 4 inp with
  | none => none
  | some (tam, r) =>
  match readLE 4 r with
  | none => none
  | some (ll, r) =>
  match readLE 4 r with
  | none => none
  | some (nl, r) =>
  match readLE 2 r with
  | none => none
  | some (bb, r) =>
    if r.length < 4 * (nl + 1) then none else
    let li := words32 (nl + 1) r
    let r := r.drop (4 * (nl + 1))
    if r.length < 4 * (tam / 32 + 1) then none else
    let lv := words32 (tam / 32 + 1) r
    let r := r.drop (4 * (tam / 32 + 1))
    if r.length < 4 * nl then none else
    let rl := words32 nl r
    let r := r.drop (4 * nl)
    match RG.loadImg r with
    | none => none
    | some (bs, rest) =>
      some ({ tamCode := tam, listLength := ll, nLevels := nl, baseBits := bb, levelsIndex := li, levels := lv,
              rankLevels := rl, bs := bs }, rest)

end CSD.DACImg
