/-
  Code trees: the mathematics behind `Huffman` / `HuTucker` code tables and the
  decoding of a bit stream with them (StatCoder / DecodingTable).

  A code table is the set of root-to-leaf paths of a binary tree whose leaves
  carry the symbols.  Huffman and Hu-Tucker differ only in *which* tree they
  build; everything a decoder needs follows from the tree shape.
-/
namespace CSD.Codes

inductive Tree where
  | leaf (sym : Nat)
  | node (l r : Tree)
  deriving Repr, DecidableEq

/-- (symbol, codeword) pairs, left to right; `false` = bit 0 = left branch. -/
def codes : Tree → List (Nat × List Bool)
  | .leaf s => [(s, [])]
  | .node l r => (codes l).map (fun (s, c) => (s, false :: c)) ++ (codes r).map (fun (s, c) => (s, true :: c))

/-- Leaves in order. -/
def leaves : Tree → List Nat
  | .leaf s => [s]
  | .node l r => leaves l ++ leaves r

/-- Codeword of a symbol (first match). -/
def encodeSym (t : Tree) (s : Nat) : Option (List Bool) := (codes t).lookup s

/-- Encode a word symbol by symbol. -/
def encode (t : Tree) : List Nat → Option (List Bool)
  | [] => some []
  | s :: w => match encodeSym t s, encode t w with
    | some c, some rest => some (c ++ rest)
    | _, _ => none

/-- Walk down the tree along the bit stream until a leaf: the decoded symbol and the rest. -/
def decodeSym : Tree → List Bool → Option (Nat × List Bool)
  | .leaf s, bits => some (s, bits)
  | .node _ _, [] => none
  | .node l r, b :: bits => if b then decodeSym r bits else decodeSym l bits

/-- Decode `n` symbols. -/
def decode (t : Tree) : Nat → List Bool → Option (List Nat × List Bool)
  | 0, bits => some ([], bits)
  | n + 1, bits => match decodeSym t bits with
    | none => none
    | some (s, rest) => match decode t n rest with
      | none => none
      | some (w, r) => some (s :: w, r)

def isPrefixB : List Bool → List Bool → Bool
  | [], _ => true
  | _ :: _, [] => false
  | a :: as, b :: bs => a == b && isPrefixB as bs

/-- Lexicographic comparison of bit strings (false < true; a proper prefix is smaller). -/
def bitsLt : List Bool → List Bool → Bool
  | [], [] => false
  | [], _ :: _ => true
  | _ :: _, [] => false
  | a :: as, b :: bs => if a = b then bitsLt as bs else (!a && b)

/-- Σ over leaves of 2^(D − depth), with `D` the available depth: Kraft's sum scaled to ℕ. -/
def kraft : Tree → Nat → Nat
  | .leaf _, d => 2 ^ d
  | .node l r, d => kraft l (d - 1) + kraft r (d - 1)

def depth : Tree → Nat
  | .leaf _ => 0
  | .node l r => max (depth l) (depth r) + 1

end CSD.Codes
