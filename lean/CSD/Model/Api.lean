/-
  The query API as a state machine (C14), and the one place where a query writes
  into the caller's buffer: `RePair::extractStringAndCompareRP`.
-/
import CSD.Spec

namespace CSD.Api

/-- System state: the (immutable) dictionary plus the open iterators, each a list
of items still to be delivered. -/
structure Sys (D Item : Type) where
  dict : D
  iters : List (List Item)

inductive Op (Q : Type) where
  | query (q : Q)              -- any locate / extract / search call
  | openIter (q : Q)           -- a call returning an iterator
  | next (k : Nat)             -- advance the k-th open iterator
  | save

/-- One API call. `answer` and `items` are the kind's query functions. -/
def step {D Q A Item : Type} (answer : D → Q → A) (items : D → Q → List Item)
    (s : Sys D Item) : Op Q → Sys D Item × Option (A ⊕ Option Item)
  | .query q => (s, some (.inl (answer s.dict q)))
  | .openIter q => ({ s with iters := s.iters ++ [items s.dict q] }, none)
  | .next k =>
    match s.iters[k]? with
    | some (x :: rest) => ({ s with iters := s.iters.set k rest }, some (.inr (some x)))
    | _ => (s, some (.inr none))
  | .save => (s, none)

/-- A symbol of the stored string as the comparison loop sees it. -/
inductive Sym where
  | term (b : UInt8)
  | rule (expansion : List UInt8)

/-- `expandRuleAndCompareString` / the terminal comparison: compare `bytes` with the
buffer from `pos`; returns the sign and the new position, `none` on a read past the buffer. -/
def cmpBytes : List UInt8 → List UInt8 → Nat → Option (Int × Nat)
  | [], _, pos => some (0, pos)
  | b :: bs, buf, pos =>
    match buf[pos]? with
    | none => none
    | some c => if b = c then cmpBytes bs buf (pos + 1) else some ((b.toNat : Int) - c.toNat, pos)

/-- The `while (pos <= strLen)` loop. `earlyReturn = true` is the original code, in
which a terminal mismatch `return`s at once; `false` is the repaired code (`break`).
The result tells whether the function left through the epilogue. -/
def loopRP (earlyReturn : Bool) : List Sym → List UInt8 → Nat → Nat → Option (Int × Bool)
  | [], _, _, _ => some (0, true)
  | sym :: rest, buf, strLen, pos =>
    if pos > strLen then some (0, true) else
    match sym with
    | .rule e =>
      match cmpBytes e buf pos with
      | none => none
      | some (c, pos') => if c ≠ 0 then some (c, true) else loopRP earlyReturn rest buf strLen pos'
    | .term b =>
      match buf[pos]? with
      | none => none
      | some c =>
        if b ≠ c then some ((b.toNat : Int) - c.toNat, !earlyReturn)
        else loopRP earlyReturn rest buf strLen (pos + 1)

/-- `extractStringAndCompareRP(id, str, strLen)`: writes the sentinel, compares,
restores the terminator in the epilogue. Returns the comparison and the caller's
buffer as it is left. -/
def compareRP (earlyReturn : Bool) (syms : List Sym) (buf : List UInt8) (strLen : Nat) (maxchar : UInt8) :
    Option (Int × List UInt8) :=
  let buf1 := buf.set strLen maxchar
  match loopRP earlyReturn syms buf1 strLen 0 with
  | none => none
  | some (c, viaEpilogue) => some (c, if viaEpilogue then buf1.set strLen 0 else buf1)

end CSD.Api
