/-
  Models of the ID iterators (`iterators/IteratorDictIDContiguous.h`,
  `IteratorDictIDDuplicates.h`) as state machines over 64-bit counters.
-/
namespace CSD.IdIter

def W64 : Nat := 2 ^ 64

/-- `IteratorDictIDContiguous(left, right)`: `processed = left - 1` (a `size_t`,
so `left = 0` wraps to 2^64 − 1), `scanneable = right`. -/
structure Contig where
  processed : Nat
  scanneable : Nat
  deriving Repr

def Contig.mk' (left right : Nat) : Contig :=
  { processed := (left + W64 - 1) % W64, scanneable := right }

def Contig.hasNext (it : Contig) : Bool := it.processed < it.scanneable

/-- `next()`: `return ++processed;` -/
def Contig.next (it : Contig) : Nat × Contig :=
  let p := (it.processed + 1) % W64
  (p, { it with processed := p })

def Contig.drain : Nat → Contig → List Nat
  | 0, _ => []
  | fuel + 1, it => if it.hasNext then let (v, it') := it.next; v :: Contig.drain fuel it' else []

/-- `IteratorDictIDDuplicates(ids, scanneable)`: `ids` is sorted and has
`scanneable + 1` cells (the last one a sentinel); `next` returns the current
value and skips its repetitions. Reading a cell outside the array is `none`. -/
structure Dups where
  ids : List Nat
  processed : Nat
  scanneable : Nat
  deriving Repr

def Dups.hasNext (it : Dups) : Bool := it.processed < it.scanneable

/-- The skip loop `while (ids[processed] == ids[processed+1] ...)`, with fuel. -/
def Dups.skip (ids : List Nat) (v : Nat) : Nat → Nat → Option Nat
  | 0, p => some p
  | fuel + 1, p =>
    match ids[p]? with
    | none => none
    | some x => if x = v then Dups.skip ids v fuel (p + 1) else some p

def Dups.next (it : Dups) : Option (Nat × Dups) :=
  match it.ids[it.processed]? with
  | none => none
  | some v =>
    match Dups.skip it.ids v (it.ids.length) (it.processed + 1) with
    | none => none
    | some p => some (v, { it with processed := p })

end CSD.IdIter
