/-
  Model of `StringDictionaryRPFC::save` / `load` on bytes (type tag, counters, the text — plain headers and
  bit-packed Re-Pair symbols —, the positional index as a LogSequence image, the symbol width and the grammar
  header of `RePair::save(out)` / `loadNoSeq`), and of the way the query layer sees the loaded object:
  `toD` cuts the text into buckets with the positional index, reads the NUL-terminated header and unpacks the
  `bitsrp`-wide fields behind it (what repeated `decodeSymbol` calls return, most significant bit first).
-/
import CSD.Model.RPFC
import CSD.Model.PFCLoad

namespace CSD.RPFCImg
open CSD.LogSeq (leBytes fromLE readLE)

structure Img where
  elements : Nat
  maxlength : Nat
  buckets : Nat
  bucketsize : Nat
  text : List UInt8
  bl : LogSeq.T
  bitsrp : Nat
  maxchar : Nat
  terminals : Nat
  rules : Nat
  G : LogSeq.T

/-- `StringDictionaryRPFC::save` (with `RePair::save(out)`). -/
def save (tag : Nat) (d : Img) : List UInt8 :=
  leBytes tag 4 ++ leBytes d.elements 8 ++ leBytes d.maxlength 4 ++ leBytes d.buckets 4 ++ leBytes d.bucketsize 4 ++
    leBytes d.text.length 8 ++ d.text ++ d.bl.save ++ leBytes d.bitsrp 4 ++
    leBytes d.maxchar 1 ++ leBytes d.terminals 8 ++ leBytes d.rules 8 ++ d.G.save

/-- `StringDictionaryRPFC::load` (with `RePair::loadNoSeq`). -/
def load (tag : Nat) (inp : List UInt8) : Option (Img × List UInt8) :=
  match readLE 4 inp with
  | none => none
  | some (t, r) =>
    if t ≠ tag then none else
    match readLE 8 r with
    | none => none
    | some (el, r) =>
    match readLE 4 r with
    | none => none
    | some (ml, r) =>
    match readLE 4 r with
    | none => none
    | some (bk, r) =>
    match readLE 4 r with
    | none => none
    | some (bs, r) =>
    match readLE 8 r with
    | none => none
    | some (bytesStrings, r) =>
    if r.length < bytesStrings then none else
    match LogSeq.load (r.drop bytesStrings) with
    | none => none
    | some (bl, r2) =>
    match readLE 4 r2 with
    | none => none
    | some (bits, r2) =>
    match readLE 1 r2 with
    | none => none
    | some (mc, r2) =>
    match readLE 8 r2 with
    | none => none
    | some (tm, r2) =>
    match readLE 8 r2 with
    | none => none
    | some (ru, r2) =>
    match LogSeq.load r2 with
    | none => none
    | some (g, rest) =>
      some ({ elements := el, maxlength := ml, buckets := bk, bucketsize := bs, text := r.take bytesStrings, bl := bl,
              bitsrp := bits, maxchar := mc, terminals := tm, rules := ru, G := g }, rest)

/-! ### The loaded object as the query layer sees it -/

/-- The bits of a byte string, most significant bit of every byte first. -/
def bitsOf (bs : List UInt8) : List Bool :=
  bs.flatMap fun b => (List.range 8).map fun i => b.toNat.testBit (7 - i)

def natOfBits (l : List Bool) : Nat := l.foldl (fun a b => 2 * a + (if b then 1 else 0)) 0

/-- Repeated `decodeSymbol`: consecutive `w`-bit fields. -/
def unpack (w : Nat) : Nat → List Bool → List Nat
  | 0, _ => []
  | fuel + 1, bits => if w = 0 ∨ bits.length < w then [] else natOfBits (bits.take w) :: unpack w fuel (bits.drop w)

/-- Header and symbol stream of the bucket that occupies `text[beg, end)`. -/
def bucketOf (w : Nat) (text : List UInt8) (beg en : Nat) : Str × List Nat :=
  let b := (text.take en).drop beg
  let hdr := b.takeWhile (· ≠ 0)
  let rest := b.drop (hdr.length + 1)
  (hdr, unpack w (8 * rest.length) (bitsOf rest))

def toD (d : Img) : Option RPFC.D :=
  let offs := (List.range (d.buckets + 1)).map fun k => (d.bl.get (k + 1)).map (·.toNat)
  if offs.any (·.isNone) then none else
  let o := offs.map (·.getD 0)
  let bks := (List.range d.buckets).map fun k =>
    bucketOf d.bitsrp d.text (o.getD k 0) (if k + 1 = d.buckets then d.text.length else o.getD (k + 1) 0)
  let rl := (List.range d.rules).map fun k => ((d.G.get (2 * k)).map (·.toNat), (d.G.get (2 * k + 1)).map (·.toNat))
  if rl.any (fun p => p.1.isNone || p.2.isNone) then none else
  some { g := { terminals := d.terminals, rules := rl.map fun p => (p.1.getD 0, p.2.getD 0) }, maxchar := d.maxchar,
         elements := d.elements, maxlength := d.maxlength, buckets := d.buckets, bucketsize := d.bucketsize,
         headers := bks.map (·.1), streams := bks.map (·.2) }

end CSD.RPFCImg
