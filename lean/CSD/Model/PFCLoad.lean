/-
  Model of the readers: `loadValue<T>` (little-endian), `LogSequence(std::istream&)`,
  `StringDictionaryPFC::load`.  The input stream is the list of bytes not yet read;
  every reader returns the value and the rest of the stream, or `none` when the
  stream is too short (the C++ would read garbage / fail).
-/
import CSD.Model.PFC

namespace CSD.LogSeq

/-- `loadValue<uintN_t>`: `k` bytes, little-endian. -/
def readLE (k : Nat) (inp : List UInt8) : Option (Nat × List UInt8) :=
  if inp.length < k then none else some (fromLE (inp.take k), inp.drop k)

/-- `n` 64-bit words from a byte buffer (`(size_t*) loadValue<uchar>(in, numbytes)`). -/
def wordsOf : Nat → List UInt8 → List Word
  | 0, _ => []
  | n + 1, bs => BitVec.ofNat 64 (fromLE (bs.take 8)) :: wordsOf n (bs.drop 8)

/-- `LogSequence::LogSequence(std::istream&)`. -/
def load (inp : List UInt8) : Option (T × List UInt8) :=
  match inp with
  | [] => none
  | nb :: rest =>
    match readLE 8 rest with
    | none => none
    | some (n, rest) =>
      let bytes := numBytesPadded nb.toNat n
      if rest.length < bytes then none
      else some ({ numbits := nb.toNat, numentries := n, data := wordsOf (bytes / 8) rest }, rest.drop bytes)

end CSD.LogSeq

namespace CSD.PFC
open CSD.LogSeq (readLE)

/-- The field sequence `save` / `load` above follow, in the token language of the generated
`CSD.Generated.saveFields` / `loadFields` (theorem `CSD.Props.C06.pfc_model_layout_matches_source`). -/
def layout : List String := ["val uint32_t TAG", "val uint64_t elements", "val uint32_t maxlength",
  "val uint32_t buckets", "val uint32_t bucketsize", "val uint64_t bytesStrings",
  "arr uchar textStrings [bytesStrings]", "sub LogSequence/1"]

def logSeqLayout : List String := ["val uchar TAG", "val uint64_t numentries", "arr uchar array [numbytes]"]

/-- All the fields of a LogSequence as numbers (`none` if a read is refused). -/
def fieldsOf (ls : LogSeq.T) : Nat → Option (List Nat)
  | 0 => some []
  | n + 1 => match fieldsOf ls n, ls.get n with
    | some l, some v => some (l ++ [v.toNat])
    | _, _ => none

/-- `StringDictionaryPFC::load`: `none` for a foreign tag or a short stream. -/
def load (inp : List UInt8) : Option (T × List UInt8) :=
  match readLE 4 inp with
  | none => none
  | some (tag, r) =>
    if tag ≠ 211 then none else
    match readLE 8 r with
    | none => none
    | some (elements, r) =>
    match readLE 4 r with
    | none => none
    | some (maxlength, r) =>
    match readLE 4 r with
    | none => none
    | some (buckets, r) =>
    match readLE 4 r with
    | none => none
    | some (bucketsize, r) =>
    match readLE 8 r with
    | none => none
    | some (bytesStrings, r) =>
    if r.length < bytesStrings then none else
    match LogSeq.load (r.drop bytesStrings) with
    | none => none
    | some (ls, rest) =>
      match fieldsOf ls ls.numentries with
      | none => none
      | some bl =>
        some ({ elements := elements, maxlength := maxlength, buckets := buckets, bucketsize := bucketsize,
                text := r.take bytesStrings, bl := bl }, rest)

end CSD.PFC
