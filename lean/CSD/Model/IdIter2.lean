/-
  `iterators/IteratorDictIDDuplicates.h`, faithful model:

      size_t next() {
        size_t next = ids[processed];
        do { processed++; } while (ids[processed - 1] == ids[processed]);
        return next;
      }

  `ids` has `scanneable + 1` cells: the sorted occurrences and a sentinel 0 (IDs
  are ≥ 1). A read outside the array is `none`.
-/
namespace CSD.Dups

/-- The `do … while` loop: returns the new `processed`. `fuel` bounds the iterations. -/
def advance (ids : List Nat) : Nat → Nat → Option Nat
  | 0, _ => none
  | fuel + 1, p =>
    match ids[p]?, ids[p + 1]? with
    | some a, some b => if a = b then advance ids fuel (p + 1) else some (p + 1)
    | _, _ => none

structure It where
  ids : List Nat
  processed : Nat
  scanneable : Nat

def It.hasNext (it : It) : Bool := it.processed < it.scanneable

def It.next (it : It) : Option (Nat × It) :=
  match it.ids[it.processed]? with
  | none => none
  | some v =>
    match advance it.ids it.ids.length it.processed with
    | some p => some (v, { it with processed := p })
    | none => none

def It.drain : Nat → It → Option (List Nat)
  | 0, _ => some []
  | fuel + 1, it =>
    if it.hasNext then
      match it.next with
      | none => none
      | some (v, it') => match It.drain fuel it' with
        | some l => some (v :: l)
        | none => none
    else some []

/-- Remove adjacent repetitions. -/
def dedupAdj : List Nat → List Nat
  | [] => []
  | [x] => [x]
  | x :: y :: t => if x = y then dedupAdj (y :: t) else x :: dedupAdj (y :: t)

end CSD.Dups
