/-
  Model of `StringDictionaryRPDAC::save` / `load` and of `RePair::save(out, encoding)` / `RePair::load`
  on bytes: type tag (RPDAC = 15), elements, maxlength, then the grammar — `maxchar`, `terminals`,
  `rules`, the rule table `G` as a LogSequence image, the encoding tag, the sequences as a DAC_VLS image.
-/
import CSD.Model.DACImage
import CSD.Model.PFCLoad

namespace CSD.RPDACImg
open CSD.LogSeq (leBytes fromLE readLE)

/-- The fields of a RePair object with DAC-encoded sequences. -/
structure RP where
  maxchar : Nat
  terminals : Nat
  rules : Nat
  G : LogSeq.T
  encoding : Nat
  cdac : DACImg.Img

/-- The fields of a StringDictionaryRPDAC. -/
structure Img where
  elements : Nat
  maxlength : Nat
  rp : RP

/-- `RePair::save(out, encoding)` for the DAC encodings. -/
def saveRP (r : RP) : List UInt8 :=
  leBytes r.maxchar 1 ++ leBytes r.terminals 8 ++ leBytes r.rules 8 ++ r.G.save ++ leBytes r.encoding 4 ++
    DACImg.saveImg r.cdac

/-- `RePair::load`: the DAC branch is taken for the tags of RPDAC (15) and HASHRPDAC (35); the
LogSequence branch (other encodings) is not part of this model. -/
def loadRP (tagRPDAC tagHASHRPDAC : Nat) (inp : List UInt8) : Option (RP × List UInt8) :=
  match readLE 1 inp with
  | none => none
  | some (mc, r) =>
  match readLE 8 r with
  | none => none
  | some (t, r) =>
  match readLE 8 r with
  | none => none
  | some (ru, r) =>
  match LogSeq.load r with
  | none => none
  | some (g, r) =>
  match readLE 4 r with
  | none => none
  | some (enc, r) =>
    if enc = tagRPDAC ∨ enc = tagHASHRPDAC then
      match DACImg.loadImg r with
      | none => none
      | some (c, rest) => some ({ maxchar := mc, terminals := t, rules := ru, G := g, encoding := enc, cdac := c }, rest)
    else none

/-- `StringDictionaryRPDAC::save`. -/
def save (tag : Nat) (d : Img) : List UInt8 :=
  leBytes tag 4 ++ leBytes d.elements 8 ++ leBytes d.maxlength 4 ++ saveRP d.rp

/-- `StringDictionaryRPDAC::load`: `none` for a foreign tag or a short stream. -/
def load (tag tagH : Nat) (inp : List UInt8) : Option (Img × List UInt8) :=
  match readLE 4 inp with
  | none => none
  | some (t, r) =>
    if t ≠ tag then none else
    match readLE 8 r with
    | none => none
    | some (el, r) =>
    match readLE 4 r with
    | none => none
    | some (ml, r) =>
    match loadRP tag tagH r with
    | none => none
    | some (rp, rest) => some ({ elements := el, maxlength := ml, rp := rp }, rest)

end CSD.RPDACImg
