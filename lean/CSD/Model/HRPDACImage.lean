/-
  Model of `StringDictionaryHASHRPDAC::save` / `load` on bytes: type tag (HASHRPDAC = 124), elements,
  maxlength, the grammar with its DAC sequences (`RePair::save(out, type)` / `RePair::load`), and the hash
  table header of `HashDAC::save` / `load`: `tsize`, `n` (both `size_t`) and the occupancy bitmap as a
  BitSequenceRG image.
-/
import CSD.Model.RPDACImage

namespace CSD.HRPDACImg
open CSD.LogSeq (leBytes fromLE readLE)

structure Img where
  elements : Nat
  maxlength : Nat
  rp : RPDACImg.RP
  tsize : Nat
  n : Nat
  bht : RG.Img

def save (d : Img) : List UInt8 :=
  leBytes 124 4 ++ leBytes d.elements 8 ++ leBytes d.maxlength 4 ++ RPDACImg.saveRP d.rp ++
    leBytes d.tsize 8 ++ leBytes d.n 8 ++ RG.saveImg d.bht

def load (inp : List UInt8) : Option (Img × List UInt8) :=
  match readLE 4 inp with
  | none => none
  | some (t, r) =>
    if t ≠ 124 then none else
    match readLE 8 r with
    | none => none
    | some (el, r) =>
    match readLE 4 r with
    | none => none
    | some (ml, r) =>
    match RPDACImg.loadRP 3 124 r with
    | none => none
    | some (rp, r) =>
    match readLE 8 r with
    | none => none
    | some (ts, r) =>
    match readLE 8 r with
    | none => none
    | some (n, r) =>
    match RG.loadImg r with
    | none => none
    | some (b, rest) => some ({ elements := el, maxlength := ml, rp := rp, tsize := ts, n := n, bht := b }, rest)

end CSD.HRPDACImg
