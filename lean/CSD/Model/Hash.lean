/-
  Model of `Hash/HashUtils.h` (bitwisehash, step_value, nearest_prime), of the
  double-hashing insertion/search of `Hash/HashDAC.cpp`, and of the ID assignment
  and lookup of `StringDictionaryHASHRPDAC` / `StringDictionaryHASHRPDACBlocks`.

  `uint` arithmetic is modelled mod 2^32 where the C++ wraps.
-/
import CSD.Spec
import CSD.Model.Blocks

namespace CSD.Hash

def M32 : Nat := 2 ^ 32

/-- `bitwisehash(word, len, htsize)`. -/
def bitwisehash (w : Str) (htsize : Nat) : Nat :=
  let h := w.foldl (fun h c => (((h <<< 15) % M32 + h + c.toNat) % M32) % htsize % M32) 4294967279
  h % htsize

/-- `step_value(word, len, htsize)`. -/
def stepValue (w : Str) (htsize : Nat) : Nat :=
  if htsize = 1 then 0 else
  let h := w.foldl (fun h c => (((h <<< 5) % M32) ^^^ (h >>> 27)) ^^^ c.toNat) 4294967197
  let h := h % (htsize - 1)
  if h = 0 then 1 else h

/-- Trial division as in `nearest_prime`: odd `p`, divisors 3, 5, … below `⌊√p⌋ + 1`. -/
def oddTrial (p : Nat) : Nat → Nat → Bool
  | 0, _ => true
  | fuel + 1, i => if i < Nat.sqrt p + 1 then (if p % i = 0 then false else oddTrial p fuel (i + 2)) else true

/-- `nearest_prime(n)` with fuel (Bertrand: `2n + 2` steps suffice; the driver uses that). -/
def nearestPrime : Nat → Nat → Nat
  | 0, p => p
  | fuel + 1, p => if p % 2 ≠ 0 && oddTrial p (Nat.sqrt p + 2) 3 then p else nearestPrime fuel (p + 1)

/-- The table under construction: `none` = free cell (`(size_t)-1`). -/
abbrev Table := List (Option Nat)

/-- Probe sequence of `insert` / `search`: `hval, hval+h2, hval+2·h2, … (mod tsize)`. -/
def probe (hval h2 tsize i : Nat) : Nat := (hval + i * h2) % tsize

/-- `HashDAC::insert(w, len, offset)`: the slot taken, or `none` ("hash table full"). -/
def insertSlot (t : Table) (w : Str) : Option Nat :=
  let tsize := t.length
  let hval := bitwisehash w tsize
  let h2 := stepValue w tsize
  (List.range tsize).findSome? fun i =>
    let s := probe hval h2 tsize i
    if t.getD s none = none then some s else none

/-- Insert the strings in input order; returns the table and the slot of every string. -/
def insertAll (tsize : Nat) (S : List Str) : Table × List (Option Nat) :=
  S.zipIdx.foldl (fun (acc : Table × List (Option Nat)) (w, i) =>
    match insertSlot acc.1 w with
    | some s => (acc.1.set s (some i), acc.2 ++ [some s])
    | none => (acc.1, acc.2 ++ [none])) (List.replicate tsize none, [])

/-- ID of the occupied slot `s`: its rank among the occupied cells (`b_ht->rank1(s)`). -/
def rankOcc (t : Table) (s : Nat) : Nat := ((t.take (s + 1)).filter Option.isSome).length

/-- The dictionary as the query layer sees it: occupied bitmap + the string stored for each cell. -/
structure HDict where
  S : List Str
  tsize : Nat
  table : Table          -- cell ↦ index of the string in S

def build (tsize0 : Nat) (S : List Str) : HDict :=
  let tsize := nearestPrime (2 * tsize0 + 4) tsize0
  { S := S, tsize := tsize, table := (insertAll tsize S).1 }

/-- `StringDictionaryHASHRPDAC::locate`. -/
def locate (d : HDict) (q : Str) : Nat :=
  let hval := bitwisehash q d.tsize
  let h2 := stepValue q d.tsize
  ((List.range d.tsize).findSome? fun i =>
    let s := probe hval h2 d.tsize i
    match d.table.getD s none with
    | none => some 0                                   -- empty cell: not in the dictionary
    | some k => if d.S.getD k [] = q then some (rankOcc d.table s) else none).getD 0

/-- `extract(id)`: the string whose cell has rank `id`. -/
def extract (d : HDict) (id : Nat) : Option Str :=
  if id = 0 ∨ id > d.S.length then none else
  let occ := d.table.filterMap (fun x => x)
  match occ[id - 1]? with
  | some k => d.S[k]?
  | none => none

/-! ### Blocks: routing on top of the parts -/

/-- `binary_search_before_index(v, target)` for a sorted `v` (via `std::lower_bound`). -/
def searchBefore {α : Type} (lt : α → α → Bool) (v : List α) (target : α) : Nat :=
  -- lower_bound: first index whose element is not less than the target
  let lb := (v.findIdx fun x => !(lt x target))
  if lb = v.length then v.length - 1
  else if lb > 0 then
    match v[lb - 1]?, v[lb]? with
    | some a, some b => if !(lt target a) && lt target b then lb - 1 else lb
    | _, _ => lb
  else lb

structure BDict where
  parts : List HDict
  samples : List Str
  starts : List Nat
  n : Nat

def buildBlocks (cutSize : Nat) (tsizeOf : Nat → Nat) (S : List Str) : BDict :=
  let blocks := Blocks.cut cutSize S
  { parts := blocks.map fun b => build (tsizeOf b.length) b
    samples := Blocks.samples blocks
    starts := Blocks.starts 0 blocks
    n := S.length }

def locateBlocks (d : BDict) (q : Str) : Nat :=
  let p := searchBefore slt d.samples q
  match d.parts[p]?, d.starts[p]? with
  | some part, some st => let r := locate part q; if r > 0 then r + st else 0
  | _, _ => 0

def extractBlocks (d : BDict) (id : Nat) : Option Str :=
  if id > d.n ∨ id = 0 then none else
  let p := searchBefore (fun a b => decide (a < b)) d.starts (id - 1)
  match d.parts[p]?, d.starts[p]? with
  | some part, some st => extract part (id - st)
  | _, _ => none

/-! ### Table scan of the blocks dictionary (`IteratorDictStringHRPDACBlocks`) -/

/-- Iterator state: the local ID inside the current part and the part. -/
structure BIter where
  current : Nat
  partIdx : Nat

/-- `to_index()`: the number of strings before the next part (`strings_qty` for the last one). The C++ computes
`starting_indexes.size() - 1` in `size_t`; it is only evaluated behind `partIdx < parts.size()`, so never for an
empty vector. -/
def toIndex (d : BDict) (p : Nat) : Nat :=
  if p < d.starts.length - 1 then d.starts.getD (p + 1) 0 else d.n

/-- `hasNext()`. The subtraction is unsigned in the C++; `to_index()` is never below the part's own start in a
built dictionary (`toIndex_sub` of the lemmas), so no wrap-around is modelled. -/
def bHasNext (d : BDict) (it : BIter) : Bool :=
  decide (it.partIdx < d.parts.length) && decide (it.current ≤ toIndex d it.partIdx - d.starts.getD it.partIdx 0)

/-- `next()`: `parts[partIdx]->extract(current++)`, then on to the next part when the current one is exhausted. -/
def bNext (d : BDict) (it : BIter) : Option (Option Str × BIter) :=
  match d.parts[it.partIdx]? with
  | none => none
  | some part =>
    let r := extract part it.current
    if it.current + 1 > toIndex d it.partIdx - d.starts.getD it.partIdx 0 then some (r, ⟨1, it.partIdx + 1⟩)
    else some (r, ⟨it.current + 1, it.partIdx⟩)

def bDrain (d : BDict) : Nat → BIter → Option (List (Option Str))
  | 0, _ => some []
  | fuel + 1, it =>
    if bHasNext d it then
      match bNext d it with
      | none => none
      | some (r, it') =>
        match bDrain d fuel it' with
        | some l => some (r :: l)
        | none => none
    else some []

/-- `extractTable()` drained. -/
def tableBlocks (d : BDict) : Option (List (Option Str)) := bDrain d (d.n + 1) ⟨1, 0⟩

end CSD.Hash
