/-
  Model of the query layer of `StringDictionaryRPFC` (Re-Pair compressed front coding):
  `decodeString`, `getHeader`, `locateBucket`, `locate`, `extract`, `locateBoundaryBuckets`,
  `searchPrefix`, `searchDistinctPrefix`, `locatePrefix`.

  The object is seen the way these routines see it: a plain NUL-terminated header per bucket and, behind
  it, the stream of Re-Pair symbols of the bucket's internal strings.  `decodeSymbol` (the `bitsrp`-wide
  fields packed into bytes) is abstracted to "the next symbol of the list" — the packing is modelled and
  proved separately (`CSD.RPFC.Bits`); `rp->expandRule` is the grammar's `expandSym`.  Reading a symbol
  past the end of the bucket's stream is `none` (the C++ would read the next bucket's header bytes).
  The scratch buffers (`vb`, `decoded`, both `maxlength` bytes) are not modelled; their sufficiency is a
  hypothesis the driver checks on every exported structure (`CSD.Driver.checkRpfc`).

  Every internal string is stored as the symbols of `VByte(lcp) ++ suffix ++ [maxchar]`
  (the constructor replaces the NUL by `maxchar` = 255 and compresses string by string: no rule spans
  two strings because pairs with the separator 0 are never formed).
-/
import CSD.Spec
import CSD.Model.VByte
import CSD.Model.RePair
import CSD.Model.PFCPrefix

namespace CSD.RPFC
open CSD.RePair

structure D where
  g : Grammar
  maxchar : Nat
  elements : Nat
  maxlength : Nat
  buckets : Nat
  bucketsize : Nat
  headers : List Str
  streams : List (List Nat)
  deriving Repr

def toBytes (l : List Nat) : Str := l.map (·.toUInt8)

/-- `while (read < 2) { next symbol; expand into vb }`. -/
def readVB (g : Grammar) : Nat → List Nat → List Nat → Option (List Nat × List Nat)
  | 0, _, _ => none
  | fuel + 1, st, vb =>
    if vb.length < 2 then
      match st with
      | [] => none
      | r :: st' => readVB g fuel st' (vb ++ g.expandSym r)
    else some (vb, st)

/-- `while (str[strLen - 1] != maxchar) { next symbol; expand behind str }`. -/
def readTail (g : Grammar) (maxchar : Nat) : Nat → List Nat → List Nat → Option (List Nat × List Nat)
  | 0, _, _ => none
  | fuel + 1, st, str =>
    match str.getLast? with
    | none => none                                   -- `str[-1]`
    | some l =>
      if l = maxchar then some (str, st)
      else match st with
        | [] => none
        | r :: st' => readTail g maxchar fuel st' (str ++ g.expandSym r)

/-- `decodeString(str, &strLen, &ptr, &offset)`: returns the shared length, the new string and the
advanced stream. `prev` is what the buffer `str` holds (the previous string). -/
def decodeString (d : D) (prev : Str) (st : List Nat) : Option (Nat × Str × List Nat) :=
  match readVB d.g 3 st [] with
  | none => none
  | some (vb, st1) =>
    match VByte.decode (toBytes vb) with
    | none => none                                   -- VByte running past the bytes read so far
    | some (shared, adv) =>
      if shared > prev.length then none              -- would expose stale bytes of the buffer
      else
        match readTail d.g d.maxchar (st1.length + 1) st1 (prev.map (·.toNat) |>.take shared |>.append (vb.drop adv)) with
        | none => none
        | some (str, st2) => some (shared, toBytes str.dropLast, st2)

/-- `i` applications of `decodeString`. -/
def decodeSteps (d : D) : Nat → Str → List Nat → Option (Str × List Nat)
  | 0, cur, st => some (cur, st)
  | k + 1, cur, st =>
    match decodeString d cur st with
    | none => none
    | some (_, s, st') => decodeSteps d k s st'

def header (d : D) (k : Nat) : Option Str := if k = 0 then none else d.headers[k - 1]?
def stream (d : D) (k : Nat) : Option (List Nat) := if k = 0 then none else d.streams[k - 1]?

/-- `StringDictionaryRPFC::extract`. -/
def extract (d : D) (id : Nat) : Option (Option Str) :=
  if id > 0 ∧ id ≤ d.elements then
    let idbucket := 1 + (id - 1) / d.bucketsize
    let pos := (id - 1) % d.bucketsize
    match header d idbucket, stream d idbucket with
    | some hdr, some st =>
      match decodeSteps d pos hdr st with
      | some (s, _) => some (some s)
      | none => none
    | _, _ => none
  else some none

/-- `locateBucket`: binary search with `strcmp` on the headers. -/
def locateBucketLoop (d : D) (q : Str) : Nat → Nat → Nat → Nat → Int → Option PFC.BucketRes
  | 0, _, _, center, cmp => some (.candidate (if cmp < 0 then center else center - 1))
  | fuel + 1, left, right, center, cmp =>
    if left ≤ right then
      let center := (left + right) / 2
      match header d center with
      | none => none
      | some hdr =>
        let cmp := scmp hdr q
        if cmp > 0 then locateBucketLoop d q fuel left (center - 1) center cmp
        else if cmp < 0 then locateBucketLoop d q fuel (center + 1) right center cmp
        else some (.header center)
    else some (.candidate (if cmp < 0 then center else center - 1))

def locateBucket (d : D) (q : Str) : Option PFC.BucketRes :=
  locateBucketLoop d q (d.buckets + 1) 1 d.buckets 0 0

def scanneableOf (d : D) (k : Nat) : Nat :=
  if k = d.buckets ∧ d.elements % d.bucketsize ≠ 0 then d.elements % d.bucketsize else d.bucketsize

/-- The `for (i = 2; i < scanneable; i++)` loop of `locate`: every string is decoded in full, then the
shared length is tested, then the comparison resumes at `sharedCurr`. -/
def scanLoop (d : D) (q : Str) : Nat → Nat → Nat → List Nat → Str → Nat → Option Nat
  | 0, _, _, _, _, _ => some 0
  | fuel + 1, i, scanneable, st, decoded, sharedCurr =>
    if i < scanneable then
      match decodeString d decoded st with
      | none => none
      | some (sharedPrev, decoded', st') =>
        if sharedPrev < sharedCurr then some 0
        else
          let (cmp, shared') := PFC.cmpFrom decoded' q sharedCurr
          if cmp = 0 then some (i + 1)
          else if cmp > 0 then some 0
          else scanLoop d q fuel (i + 1) scanneable st' decoded' shared'
    else some 0

/-- `StringDictionaryRPFC::locate`. -/
def locate (d : D) (q : Str) : Option Nat :=
  match locateBucket d q with
  | none => none
  | some (.header k) => some ((k - 1) * d.bucketsize + 1)
  | some (.candidate 0) => some 0
  | some (.candidate k) =>
    match header d k, stream d k with
    | some hdr, some st =>
      let scanneable := scanneableOf d k
      if scanneable > 1 then
        match decodeString d hdr st with
        | none => none
        | some (_, decoded, st') =>
          let (cmp, shared) := PFC.cmpFrom decoded q 0
          if cmp ≠ 0 then
            match scanLoop d q scanneable 2 scanneable st' decoded shared with
            | none => none
            | some 0 => some 0
            | some j => some ((k - 1) * d.bucketsize + j)
          else some ((k - 1) * d.bucketsize + 2)
      else some 0
    | _, _ => none

/-! ### Prefix search -/

def ncmp (hdr p : Str) : Int := scmp (hdr.take p.length) p

def bbFirst (d : D) (p : Str) : Nat → Nat → Nat → Nat → Int → Option (Nat × Nat × Nat × Int)
  | 0, _, _, _, _ => none
  | fuel + 1, left, right, center, cmp =>
    if left ≤ right then
      let center := (left + right) / 2
      match header d center with
      | none => none
      | some hdr =>
        let cmp := ncmp hdr p
        if cmp > 0 then bbFirst d p fuel left (center - 1) center cmp
        else if cmp < 0 then bbFirst d p fuel (center + 1) right center cmp
        else some (left, right, center, 0)
    else some (left, right, center, cmp)

def bbLeft (d : D) (p : Str) : Nat → Nat → Nat → Option Nat
  | 0, _, _ => none
  | fuel + 1, ll, lr =>
    if ll ≤ lr then
      let lc := (ll + lr) / 2
      match header d lc with
      | none => none
      | some hdr => if ncmp hdr p = 0 then bbLeft d p fuel ll (lc - 1) else bbLeft d p fuel (lc + 1) lr
    else some lr

def bbRight (d : D) (p : Str) : Nat → Nat → Nat → Option Nat
  | 0, _, _ => none
  | fuel + 1, rl, rr =>
    if rl < rr - 1 then
      let rc := (rl + rr) / 2
      match header d rc with
      | none => none
      | some hdr => if ncmp hdr p = 0 then bbRight d p fuel rc rr else bbRight d p fuel rl rc
    else some rl

def boundaryBuckets (d : D) (p : Str) : Option (Nat × Nat) :=
  match bbFirst d p (d.buckets + 1) 1 d.buckets 0 0 with
  | none => none
  | some (left, right, center, cmp) =>
    if cmp ≠ 0 then
      if cmp < 0 then some (center, center) else some (center - 1, center - 1)
    else
      let l := if center > 1 then
          match bbLeft d p (d.buckets + 1) left (center - 1) with
          | none => none
          | some lr => some (if lr > 0 then lr else 1)
        else some left
      let r := if center < d.buckets then bbRight d p (d.buckets + 2) center (right + 1) else some right
      match l, r with
      | some l, some r => some (l, r)
      | _, _ => none

/-- `searchPrefix`. -/
def searchPrefixLoop (d : D) (q : Str) : Nat → Nat → Nat → List Nat → Str → Nat → Option (Nat × List Nat × Str)
  | 0, _, _, _, _, _ => none
  | fuel + 1, id, scanneable, st, decoded, sharedCurr =>
    match PFC.lcpLoop (decoded.drop sharedCurr) ((q ++ [0]).drop sharedCurr) sharedCurr with
    | none => none
    | some (cmp, shared) =>
      if shared = q.length then some (id, st, decoded)
      else if cmp > 0 ∨ id = scanneable then some (0, st, decoded)
      else match decodeString d decoded st with
        | none => none
        | some (sharedPrev, decoded', st') =>
          if sharedPrev < shared then some (0, st', decoded')
          else searchPrefixLoop d q fuel (id + 1) scanneable st' decoded' shared

/-- `searchDistinctPrefix`. -/
def searchDistinctLoop (d : D) (plen : Nat) : Nat → Nat → Nat → List Nat → Str → Option Nat
  | 0, _, _, _, _ => none
  | fuel + 1, id, scanneable, st, decoded =>
    if id < scanneable then
      match decodeString d decoded st with
      | none => none
      | some (shared, decoded', st') =>
        if shared < plen then some id
        else searchDistinctLoop d plen fuel (id + 1) scanneable st' decoded'
    else some id

/-- `StringDictionaryRPFC::locatePrefix`: the limits of the contiguous iterator. -/
def locatePrefix (d : D) (q : Str) : Option (Nat × Nat) :=
  match boundaryBuckets d q with
  | none => none
  | some (leftBucket, rightBucket) =>
    if leftBucket = 0 then some (0, 0) else
    match header d leftBucket, stream d leftBucket with
    | some hdr, some st =>
      let sc := scanneableOf d leftBucket
      match searchPrefixLoop d q (sc + 1) 1 sc st hdr 0 with
      | none => none
      | some (leftID, st', decoded) =>
        if leftBucket = rightBucket then
          if leftID = 0 then some (0, 0)
          else match searchDistinctLoop d q.length (sc + 1) 1 (sc - leftID + 1) st' decoded with
            | none => none
            | some cnt => some (leftID + (leftBucket - 1) * d.bucketsize, leftID + cnt - 1 + (rightBucket - 1) * d.bucketsize)
        else
          let left := if leftID = 0 then leftBucket * d.bucketsize + 1 else leftID + (leftBucket - 1) * d.bucketsize
          match header d rightBucket, stream d rightBucket with
          | some hdr2, some st2 =>
            let sc2 := scanneableOf d rightBucket
            match searchDistinctLoop d q.length (sc2 + 1) 1 sc2 st2 hdr2 with
            | none => none
            | some cnt => some (left, cnt + (rightBucket - 1) * d.bucketsize)
          | _, _ => none
    | _, _ => none

/-! ### string iterator (`IteratorDictStringRPFC`) -/

/-- Iterator state. The byte pointer of the C++ is the pair (`nextBucket`, `st`): `st` holds the symbols of the
current bucket not yet read and `nextBucket` is the bucket whose header follows them. The iterator finds that
header by skipping to the next byte boundary behind the last symbol it read, so it is where the positional
index says only if the bucket's symbols have been read to the last one: the model reports a bucket change
with symbols left (`st ≠ []`) as a fault. -/
structure SIter where
  nextBucket : Nat
  pos : Nat
  st : List Nat
  cur : Str
  processed : Nat
  scanneable : Nat

def SIter.hasNext (it : SIter) : Bool := it.processed < it.scanneable

/-- `IteratorDictStringRPFC::next`. -/
def iterNext (d : D) (it : SIter) : Option (Str × SIter) :=
  if it.pos % d.bucketsize = 0 then
    if it.st ≠ [] then none else
    match header d it.nextBucket, stream d it.nextBucket with
    | some h, some σ =>
      some (h, { it with nextBucket := it.nextBucket + 1, pos := 1, st := σ, cur := h, processed := it.processed + 1 })
    | _, _ => none
  else
    match decodeString d it.cur it.st with
    | none => none
    | some (_, s, st') => some (s, { it with pos := it.pos + 1, st := st', cur := s, processed := it.processed + 1 })

def drain (d : D) : Nat → SIter → Option (List Str)
  | 0, _ => some []
  | fuel + 1, it =>
    if it.hasNext then
      match iterNext d it with
      | none => none
      | some (s, it') =>
        match drain d fuel it' with
        | some l => some (s :: l)
        | none => none
    else some []

/-- The constructor with `offset` strings to discard, positioned on bucket `k`. -/
def iterOpen (d : D) (k offset scanneable : Nat) : Option SIter :=
  if offset > 0 then
    match header d k, stream d k with
    | some h, some σ =>
      match decodeSteps d (offset - 1) h σ with
      | none => none
      | some (cur, σ') => some { nextBucket := k + 1, pos := offset, st := σ', cur := cur, processed := 0, scanneable := scanneable }
    | _, _ => none
  else some { nextBucket := k, pos := 0, st := [], cur := [], processed := 0, scanneable := scanneable }

/-- The string iterator over the ID range `[left, right]`, drained. -/
def scanRange (d : D) (left right : Nat) : Option (List Str) :=
  match iterOpen d (1 + (left - 1) / d.bucketsize) ((left - 1) % d.bucketsize) (right - left + 1) with
  | none => none
  | some it => drain d d.elements it

/-- `extractTable()`. -/
def extractTable (d : D) : Option (List Str) :=
  match iterOpen d 1 0 d.elements with
  | none => none
  | some it => drain d d.elements it

/-- `extractPrefix`: `some none` = NULL. -/
def extractPrefix (d : D) (q : Str) : Option (Option (List Str)) :=
  match locatePrefix d q with
  | none => none
  | some (left, right) =>
    if left = 0 then some none
    else match scanRange d left right with
      | none => none
      | some l => some (some l)

end CSD.RPFC
