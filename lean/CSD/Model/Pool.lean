/-
  Model of `parallel/Worker.hpp` (WorkerQueue / Worker / WorkerPool) as a
  transition system, at the granularity at which the lost wake-up exists:

    * `queue_cv.wait(ul, pred)` is three steps: evaluate `pred` while holding
      `shared_mutex` (`pred`), atomically release the mutex and block (`sleep`),
      and — once notified — reacquire the mutex (`wake`) and evaluate again;
    * the loop condition `!stopped() || !queue.empty()` is two unlocked reads
      (each atomic: both are protected by a leaf mutex in the code);
    * `add_task` is: lock `shared_mutex`; push; unlock; `notify_all`;
      `stop_all_workers` is: lock; set the flags one worker at a time; unlock;
      `notify_all`  (this is the repaired code; `stepUnlocked` is the original,
      which mutated the queue and the flags without `shared_mutex`).

  The producer runs the program `add t₁; …; add tₖ; stop; join` — the protocol of
  the HASHRPDACBlocks constructor and of the pinned test.
-/
namespace CSD.Pool

/-- Worker program counter. -/
inductive WPc where
  | loopStopped            -- loop condition: reading `stopped()`
  | loopEmpty              -- `stopped()` was true: reading `queue.empty()`
  | lock                   -- acquiring `shared_mutex`
  | pred                   -- holds the mutex: evaluating the wait predicate
  | sleep                  -- predicate false: releasing the mutex and blocking (atomic)
  | waiting                -- blocked in the condition variable
  | wake                   -- notified: reacquiring the mutex
  | check                  -- holds the mutex after `wait`: break / continue / pop
  | unlocked (t : Nat)     -- task in hand, mutex released: `notify_all`
  | run (t : Nat)          -- executing the task
  | exitNotify             -- left the loop: final `notify_all`
  | done
  deriving DecidableEq, Repr

/-- Producer program counter. -/
inductive PPc where
  | addLock (t : Nat) (rest : List Nat)     -- `add_task`: acquiring `shared_mutex`
  | addPush (t : Nat) (rest : List Nat)     -- holds the mutex: push and unlock
  | addNotify (rest : List Nat)             -- `notify_all`
  | stopLock                                -- `stop_all_workers`: acquiring
  | stopSet (k : Nat)                       -- holds the mutex: `workers[k]->stop()`
  | stopNotify                              -- unlocked: `notify_all`
  | join                                    -- `wait_workers`
  | done
  deriving DecidableEq, Repr

inductive Tid where
  | prod
  | worker (i : Nat)
  | spurious (i : Nat)     -- the environment: a spurious wake-up of worker i
  deriving DecidableEq, Repr

structure State where
  n : Nat                       -- number of workers
  queue : List Nat
  stopped : Nat → Bool
  mutex : Option Tid
  wpc : Nat → WPc
  prod : PPc
  ran : List Nat                -- log: tasks executed, in order
  added : List Nat              -- log: tasks pushed, in order

def upd {α : Type} (f : Nat → α) (i : Nat) (v : α) : Nat → α := fun j => if j = i then v else f j

/-- Continue the producer program after an `add`. -/
def nextAdd : List Nat → PPc
  | [] => .stopLock
  | t :: rest => .addLock t rest

def init (n : Nat) (tasks : List Nat) : State :=
  { n := n, queue := [], stopped := fun _ => false, mutex := none,
    wpc := fun _ => .loopStopped, prod := nextAdd tasks, ran := [], added := [] }

/-- `notify_all`: every blocked worker becomes runnable (it still has to reacquire the mutex). -/
def notifyAll (s : State) : State :=
  { s with wpc := fun j => if s.wpc j = .waiting then .wake else s.wpc j }

/-- One step of worker `i` (`none` = the thread is blocked or finished). -/
def stepWorker (s : State) (i : Nat) : Option State :=
  if i ≥ s.n then none else
  match s.wpc i with
  | .loopStopped =>
    some { s with wpc := upd s.wpc i (if s.stopped i then .loopEmpty else .lock) }
  | .loopEmpty =>
    some { s with wpc := upd s.wpc i (if s.queue.isEmpty then .exitNotify else .lock) }
  | .lock =>
    if s.mutex = none then some { s with mutex := some (.worker i), wpc := upd s.wpc i .pred } else none
  | .pred =>
    some { s with wpc := upd s.wpc i (if s.stopped i || !s.queue.isEmpty then .check else .sleep) }
  | .sleep =>
    some { s with mutex := none, wpc := upd s.wpc i .waiting }
  | .waiting => none
  | .wake =>
    if s.mutex = none then some { s with mutex := some (.worker i), wpc := upd s.wpc i .pred } else none
  | .check =>
    if s.stopped i && s.queue.isEmpty then
      some { s with mutex := none, wpc := upd s.wpc i .exitNotify }       -- break (unique_lock released)
    else match s.queue with
      | [] => some { s with mutex := none, wpc := upd s.wpc i .loopStopped } -- continue
      | t :: q => some { s with queue := q, mutex := none, wpc := upd s.wpc i (.unlocked t) }
  | .unlocked t => some (notifyAll { s with wpc := upd s.wpc i (.run t) })
  | .run t => some { s with ran := s.ran ++ [t], wpc := upd s.wpc i .loopStopped }
  | .exitNotify => some (notifyAll { s with wpc := upd s.wpc i .done })
  | .done => none

/-- One step of the producer, as repaired: state changes under `shared_mutex`. -/
def stepProd (s : State) : Option State :=
  match s.prod with
  | .addLock t rest =>
    if s.mutex = none then some { s with mutex := some .prod, prod := .addPush t rest } else none
  | .addPush t rest =>
    some { s with queue := s.queue ++ [t], added := s.added ++ [t], mutex := none, prod := .addNotify rest }
  | .addNotify rest => some (notifyAll { s with prod := nextAdd rest })
  | .stopLock =>
    if s.mutex = none then some { s with mutex := some .prod, prod := .stopSet 0 } else none
  | .stopSet k =>
    if k < s.n then some { s with stopped := upd s.stopped k true, prod := .stopSet (k + 1) }
    else some { s with mutex := none, prod := .stopNotify }
  | .stopNotify => some (notifyAll { s with prod := .join })
  | .join => if ∀ i, i < s.n → s.wpc i = .done then some { s with prod := .done } else none
  | .done => none

instance (s : State) : Decidable (∀ i, i < s.n → s.wpc i = .done) := Nat.decidableBallLT _ _

def step (s : State) : Tid → Option State
  | .prod => stepProd s
  | .worker i => stepWorker s i
  | .spurious i =>
    if i < s.n ∧ s.wpc i = .waiting then some { s with wpc := upd s.wpc i .wake } else none

/-- The producer of the **unrepaired** code: `add_task` pushes and
`stop_all_workers` sets the flags without taking `shared_mutex`. -/
def stepProdUnlocked (s : State) : Option State :=
  match s.prod with
  | .addLock t rest => some { s with prod := .addPush t rest }
  | .addPush t rest =>
    some { s with queue := s.queue ++ [t], added := s.added ++ [t], prod := .addNotify rest }
  | .addNotify rest => some (notifyAll { s with prod := nextAdd rest })
  | .stopLock => some { s with prod := .stopSet 0 }
  | .stopSet k =>
    if k < s.n then some { s with stopped := upd s.stopped k true, prod := .stopSet (k + 1) }
    else some { s with prod := .stopNotify }
  | .stopNotify => some (notifyAll { s with prod := .join })
  | .join => if ∀ i, i < s.n → s.wpc i = .done then some { s with prod := .done } else none
  | .done => none

def stepUnlocked (s : State) : Tid → Option State
  | .prod => stepProdUnlocked s
  | t => step s t

/-- The synchronisation skeleton of `parallel/Worker.hpp` this model was written
against, in the token language of `tools/extract_frag.py` (`gen_poolops`). The
generated fragment `CSD.Generated.poolOps` must equal it (theorem
`CSD.Props.C10.model_matches_source`): removing a lock, turning `notify_all` into
`notify_one`, reordering the unlock and the notification, or touching the raw
members outside their guarded accessors changes the fragment. -/
def sourceShape : List (String × List String) := [
  ("WorkerQueue::add_task", ["guard mutex", "q.push_back"]),
  ("WorkerQueue::empty", ["guard mutex", "return", "q.empty"]),
  ("WorkerQueue::pop", ["guard mutex", "q.front", "q.pop_front", "return"]),
  ("Worker::stopped", ["guard mutex_stop", "return", "_stopped"]),
  ("Worker::set_stopped", ["guard mutex_stop", "_stopped"]),
  ("Worker::run", ["while", "!", "stopped?", "||", "!", "q.empty", "{", "lock shared_mutex",
    "wait[stopped? || ! q.empty]", "if", "stopped?", "&&", "q.empty", "break", "if", "q.empty", "continue",
    "q.pop", "unlock", "notify_all", "run", "}", "notify_all"]),
  ("WorkerPool::add_task", ["{", "guard shared_mutex", "q.add", "}", "notify_all"]),
  ("WorkerPool::wait_workers", ["for", "join"]),
  ("WorkerPool::stop_all_workers", ["{", "guard shared_mutex", "for", "setstop", "}", "notify_all"]),
  -- the protocol of the HASHRPDACBlocks constructor on top of the pool: reserve a slot under `m`,
  -- enqueue; each task builds its part from its own block only, stores it and counts under `m`,
  -- notifies; the producer waits for `done = parts.size`, stops the pool and joins it
  ("Blocks::ctor", ["done?", "guard m", "parts.size", "parts.push", "pool.add_task", "done?", "build-part",
    "guard m", "parts.store", "done++", "notify_all", "lock m", "wait[done? parts.size]", "pool.stop", "pool.join"])]

/-- Run a schedule (a list of thread ids); `none` if some step is not enabled. -/
def runSched (st : State → Tid → Option State) : State → List Tid → Option State
  | s, [] => some s
  | s, t :: ts => match st s t with
    | some s' => runSched st s' ts
    | none => none

/-- Reachability under the repaired step relation. -/
inductive Reachable (n : Nat) (tasks : List Nat) : State → Prop where
  | init : Reachable n tasks (init n tasks)
  | step {s s' : State} {t : Tid} : Reachable n tasks s → step s t = some s' → Reachable n tasks s'

/-- No thread of the program can move (spurious wake-ups are the environment's
choice and are not counted on). -/
def Stuck (st : State → Tid → Option State) (s : State) : Prop :=
  st s .prod = none ∧ ∀ i, st s (.worker i) = none

end CSD.Pool
