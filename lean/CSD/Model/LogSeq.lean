/-
  Model of `utils/LogSequence.{h,cpp}`: a packed array of `numentries` fields of
  `numbits` bits each inside 64-bit words (`size_t array[arraysize]`).

  The word-level functions mirror `get_field` / `set_field` branch for branch;
  a read or write outside `array` is `none`.  Shifts are `BitVec 64` shifts,
  which agree with the C++ ones whenever the shift count is < 64; the one place
  where the C++ shifts by the word size (`~0 << bitsField` with a 64-bit field,
  undefined behaviour) is modelled by `lowMask`, which is what the repaired code
  computes; `lowMaskX86` is what the unrepaired code computes on x86-64.
-/
namespace CSD.LogSeq

abbrev Word := BitVec 64

def WLS : Nat := 64

/-- `numElementsFor`: words allocated for `n` fields of `w` bits. -/
def numWords (w n : Nat) : Nat := (w * n + 63) / 64

/-- `numBytesFor`, then padded to a multiple of 8 as `save`/`load` do. -/
def numBytesPadded (w n : Nat) : Nat :=
  let nb := (w * n + 7) / 8
  if nb % 8 ≠ 0 then nb + (8 - nb % 8) else nb

/-- `~(~0 << w)` for `w < 64`, all ones for `w = 64`. -/
def lowMask (w : Nat) : Word := ~~~((BitVec.allOnes 64) <<< w)

/-- What x86-64 computes for `~(~0 << w)`: the shift count is taken mod 64, so
the mask for a 64-bit field is 0 (the defect D15 of DESIGN.md §9). -/
def lowMaskX86 (w : Nat) : Word := ~~~((BitVec.allOnes 64) <<< (w % 64))

/-- `get_field(data, w, index)`. -/
def getField (d : List Word) (w idx : Nat) : Option Word :=
  let bitPos := idx * w
  let i := bitPos / 64
  let j := bitPos % 64
  if j + w ≤ 64 then
    match d[i]? with
    | some a => some ((a <<< (64 - j - w)) >>> (64 - w))
    | none => none
  else
    match d[i]?, d[i + 1]? with
    | some a, some b => some ((a >>> j) ||| ((b <<< (128 - j - w)) >>> (64 - w)))
    | _, _ => none

/-- `set_field(data, w, index, value)`. -/
def setField (d : List Word) (w idx : Nat) (v : Word) : Option (List Word) :=
  let bitPos := idx * w
  let i := bitPos / 64
  let j := bitPos % 64
  match d[i]? with
  | none => none
  | some a =>
    let mask := (lowMask w) <<< j
    let d1 := d.set i ((a &&& ~~~mask) ||| (v <<< j))
    if j + w > 64 then
      match d1[i + 1]? with
      | none => none
      | some b =>
        let mask2 := (BitVec.allOnes 64) <<< (w + j - 64)
        some (d1.set (i + 1) ((b &&& mask2) ||| (v >>> (64 - j))))
    else some d1

/-- The object. -/
structure T where
  numbits : Nat
  numentries : Nat
  data : List Word
  deriving Repr

/-- `LogSequence(numbits, capacity)`. -/
def mk (w n : Nat) : T := { numbits := w, numentries := n, data := List.replicate (numWords w n) 0 }

/-- `LogSequence::getField` — the C++ throws for `position > numentries`. -/
def T.get (s : T) (pos : Nat) : Option Word :=
  if pos > s.numentries then none else getField s.data s.numbits pos

/-- `maxVal(numbits)`. -/
def maxVal (w : Nat) : Nat := 2 ^ w - 1

/-- `LogSequence::setField` — throws for a position or value out of range. -/
def T.set (s : T) (pos : Nat) (v : Nat) : Option T :=
  if pos > s.numentries then none
  else if v > maxVal s.numbits then none
  else match setField s.data s.numbits pos (BitVec.ofNat 64 v) with
    | some d => some { s with data := d }
    | none => none

/-- `LogSequence(vector, numbits)`: allocate, then `setField` in order. -/
def ofList (vs : List Nat) (w : Nat) : Option T :=
  let rec go (s : T) (i : Nat) : List Nat → Option T
    | [] => some s
    | v :: rest => match s.set i v with
      | some s' => go s' (i + 1) rest
      | none => none
  go (mk w vs.length) 0 vs

/-- Little-endian bytes of a natural number. -/
def leBytes (n : Nat) : Nat → List UInt8
  | 0 => []
  | k + 1 => (n % 256).toUInt8 :: leBytes (n / 256) k

def fromLE : List UInt8 → Nat
  | [] => 0
  | b :: t => b.toNat + 256 * fromLE t

/-- `LogSequence::save`: numbits (1 byte), numentries (8 bytes LE), then the
first `numBytesPadded` bytes of the word array. -/
def T.save (s : T) : List UInt8 :=
  s.numbits.toUInt8 :: leBytes s.numentries 8 ++
    ((s.data.flatMap fun w => leBytes w.toNat 8).take (numBytesPadded s.numbits s.numentries))

end CSD.LogSeq
