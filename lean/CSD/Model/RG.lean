/-
  Model of `libcds/src/bitsequence/BitSequenceRG.cpp`: a bit vector stored in
  32-bit words (`data`) with one absolute counter per super-block of `factor`
  words (`Rs`), `rank1` = counter + popcounts of whole words + popcount of the
  masked last word.
-/
namespace CSD.RG

def W : Nat := 32

/-- The 32 bits of a word, least significant first. -/
def bitsOf (w : Nat) : List Bool := (List.range 32).map w.testBit

def popcount (w : Nat) : Nat := (bitsOf w).count true

/-- All bits of the word array in position order. -/
def allBits (words : List Nat) : List Bool := words.flatMap bitsOf

/-- `Rs[j]` as `BuildRank` computes it: the popcount of the first `j * factor` words. -/
def Rs (words : List Nat) (factor j : Nat) : Nat := ((words.take (j * factor)).map popcount).sum

/-- `BitSequenceRG::rank1(i)`. -/
def rank1 (words : List Nat) (factor i : Nat) : Nat :=
  let i' := i + 1
  let s := W * factor
  let sb := i' / s
  let aux := sb * factor
  Rs words factor sb
    + (((words.drop aux).take (i' / W - aux)).map popcount).sum
    + popcount ((words.getD (i' / W) 0) &&& (2 ^ (i' % W) - 1))

/-- `access(i)`. -/
def access (words : List Nat) (i : Nat) : Bool := (words.getD (i / W) 0).testBit (i % W)

/-- Plain definition: number of ones among the first `m` bits. -/
def ones (words : List Nat) (m : Nat) : Nat := ((allBits words).take m).count true

end CSD.RG
