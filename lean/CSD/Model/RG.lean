/-
  Model of `libcds/src/bitsequence/BitSequenceRG.cpp`: a bit vector stored in
  32-bit words (`data`) with one absolute counter per super-block of `factor`
  words (`Rs`), `rank1` = counter + popcounts of whole words + popcount of the
  masked last word.
-/
namespace CSD.RG

def W : Nat := 32

/-- The 32 bits of a word, least significant first. -/
def bitsOf (w : Nat) : List Bool := (List.range 32).map w.testBit

def popcount (w : Nat) : Nat := (bitsOf w).count true

/-- All bits of the word array in position order. -/
def allBits (words : List Nat) : List Bool := words.flatMap bitsOf

/-- `Rs[j]` as `BuildRank` computes it: the popcount of the first `j * factor` words. -/
def Rs (words : List Nat) (factor j : Nat) : Nat := ((words.take (j * factor)).map popcount).sum

/-- `BitSequenceRG::rank1(i)`. -/
def rank1 (words : List Nat) (factor i : Nat) : Nat :=
  let i' := i + 1
  let s := W * factor
  let sb := i' / s
  let aux := sb * factor
  Rs words factor sb
    + (((words.drop aux).take (i' / W - aux)).map popcount).sum
    + popcount ((words.getD (i' / W) 0) &&& (2 ^ (i' % W) - 1))

/-- `access(i)`. -/
def access (words : List Nat) (i : Nat) : Bool := (words.getD (i / W) 0).testBit (i % W)

/-- Plain definition: number of ones among the first `m` bits. -/
def ones (words : List Nat) (m : Nat) : Nat := ((allBits words).take m).count true

/-! ### select1 -/

/-- `popcount8`: ones among the low 8 bits (the C++ looks them up in `__popcount_tab`). -/
def popcount8 (w : Nat) : Nat := ((List.range 8).map w.testBit).count true

/-- Binary search over the super-block counters: the last super-block with `Rs < x`.
`none` = the C++ `r = mid - 1` would wrap around (never with `1 ≤ x`). -/
def selBin (words : List Nat) (factor x : Nat) : Nat → Nat → Nat → Nat → Option Nat
  | 0, _, _, _ => none
  | fuel + 1, l, r, mid =>
    if l ≤ r then
      if Rs words factor mid < x then selBin words factor x fuel (mid + 1) r ((mid + 1 + r) / 2)
      else if mid = 0 then none
      else selBin words factor x fuel l (mid - 1) ((l + (mid - 1)) / 2)
    else some mid

/-- Sequential search over whole words: `some (some (left, x))` = the word holding the `x`-th remaining
one, `some none` = ran past the array (the C++ returns `n`), `none` = read outside `data`. -/
def selWords (words : List Nat) (integers : Nat) : Nat → Nat → Nat → Option (Option (Nat × Nat))
  | 0, _, _ => none
  | fuel + 1, left, x =>
    match words[left]? with
    | none => none
    | some j =>
      if popcount j < x then
        if left + 1 > integers then some none else selWords words integers fuel (left + 1) (x - popcount j)
      else some (some (left, x))

/-- The three byte skips: `(j, x, bits skipped)`. -/
def selBytes (j x : Nat) : Nat × Nat × Nat :=
  if popcount8 j < x then
    let j1 := j >>> 8; let x1 := x - popcount8 j
    if popcount8 j1 < x1 then
      let j2 := j1 >>> 8; let x2 := x1 - popcount8 j1
      if popcount8 j2 < x2 then (j2 >>> 8, x2 - popcount8 j2, 24) else (j2, x2, 16)
    else (j1, x1, 8)
  else (j, x, 0)

/-- Bit by bit: `while (x > 0) { if (j & 1) x--; j >>= 1; left++; }`. -/
def selBits : Nat → Nat → Nat → Nat → Option Nat
  | 0, _, _, _ => none
  | fuel + 1, j, x, left => if x > 0 then selBits fuel (j >>> 1) (if j % 2 = 1 then x - 1 else x) (left + 1) else some left

/-- `BitSequenceRG::select1(x)` on `n` bits (`ones` = `rank1(n-1)`); `none` = a read outside the arrays. -/
def select1 (words : List Nat) (factor n onesTotal x : Nat) : Option Nat :=
  if x > onesTotal then some (2 ^ 32 - 1)
  else if x = 0 then some (2 ^ 32 - 1)
  else
    let s := W * factor
    match selBin words factor x (n / s + 3) 0 (n / s) ((0 + n / s) / 2) with
    | none => none
    | some mid =>
      match selWords words (n / W + 1) (words.length + 1) (mid * factor) (x - Rs words factor mid) with
      | none => none
      | some none => some n
      | some (some (left, x')) =>
        match words[left]? with
        | none => none
        | some j =>
          let (j', x'', off) := selBytes j x'
          match selBits 40 j' x'' (left * W + off) with
          | none => none
          | some p => some (p - 1)

/-! ### select0 -/

/-- Zeros before super-block `mid`: `mid * factor * W - Rs[mid]` (never negative: a word has at most `W` ones). -/
def Rs0 (words : List Nat) (factor mid : Nat) : Nat := mid * factor * W - Rs words factor mid

def selBin0 (words : List Nat) (factor x : Nat) : Nat → Nat → Nat → Nat → Option Nat
  | 0, _, _, _ => none
  | fuel + 1, l, r, mid =>
    if l ≤ r then
      if Rs0 words factor mid < x then selBin0 words factor x fuel (mid + 1) r ((mid + 1 + r) / 2)
      else if mid = 0 then none
      else selBin0 words factor x fuel l (mid - 1) ((l + (mid - 1)) / 2)
    else some mid

def selWords0 (words : List Nat) (integers : Nat) : Nat → Nat → Nat → Option (Option (Nat × Nat))
  | 0, _, _ => none
  | fuel + 1, left, x =>
    match words[left]? with
    | none => none
    | some j =>
      if W - popcount j < x then
        if left + 1 > integers then some none else selWords0 words integers fuel (left + 1) (x - (W - popcount j))
      else some (some (left, x))

def selBytes0 (j x : Nat) : Nat × Nat × Nat :=
  if 8 - popcount8 j < x then
    let j1 := j >>> 8; let x1 := x - (8 - popcount8 j)
    if 8 - popcount8 j1 < x1 then
      let j2 := j1 >>> 8; let x2 := x1 - (8 - popcount8 j1)
      if 8 - popcount8 j2 < x2 then (j2 >>> 8, x2 - (8 - popcount8 j2), 24) else (j2, x2, 16)
    else (j1, x1, 8)
  else (j, x, 0)

/-- `while (x > 0) { if (j % 2 == 0) x--; j >>= 1; left++; }`. -/
def selBits0 : Nat → Nat → Nat → Nat → Option Nat
  | 0, _, _, _ => none
  | fuel + 1, j, x, left => if x > 0 then selBits0 fuel (j >>> 1) (if j % 2 = 0 then x - 1 else x) (left + 1) else some left

/-- `BitSequenceRG::select0(x)` on `n` bits (`onesTotal` = the member `ones`); `none` = a read outside the arrays. -/
def select0 (words : List Nat) (factor n onesTotal x : Nat) : Option Nat :=
  if x > n - onesTotal then some (2 ^ 32 - 1)
  else if x = 0 then some 0
  else
    let s := W * factor
    match selBin0 words factor x (n / s + 3) 0 (n / s) ((0 + n / s) / 2) with
    | none => none
    | some mid =>
      match selWords0 words (n / W + 1) (words.length + 1) (mid * factor) (x - Rs0 words factor mid) with
      | none => none
      | some none => some n
      | some (some (left, x')) =>
        match words[left]? with
        | none => none
        | some j =>
          let (j', x'', off) := selBytes0 j x'
          match selBits0 40 j' x'' (left * W + off) with
          | none => none
          | some p => if p - 1 > n then some n else some (p - 1)

end CSD.RG
