/-
  Model of `BitSequenceRG::save` / `BitSequenceRG::load` (`libcds/src/bitsequence/BitSequenceRG.cpp`) on
  bytes, and of the object the constructor builds (`data` of `n/32 + 1` words, `Rs` of `n/s + 1` counters
  filled by `BuildRank`).
-/
import CSD.Model.RG
import CSD.Model.PFCLoad

namespace CSD.RG
open CSD.LogSeq (leBytes fromLE readLE)

/-- The fields `save` writes. -/
structure Img where
  n : Nat
  factor : Nat
  data : List Nat      -- `integers` 32-bit words
  Rs : List Nat        -- `n / s + 1` 32-bit counters
  deriving Repr, DecidableEq

def HDR : Nat := 3     -- BRW32_HDR

/-- `saveValue<uint>(f, array, len)`. -/
def le32s (l : List Nat) : List UInt8 := l.flatMap fun w => leBytes w 4

/-- `BitSequenceRG::save`. -/
def saveImg (d : Img) : List UInt8 :=
  leBytes HDR 4 ++ leBytes d.n 8 ++ leBytes d.factor 8 ++ le32s d.data ++ le32s d.Rs

/-- `loadValue<uint>(f, len)`: `k` 32-bit words. -/
def words32 : Nat → List UInt8 → List Nat
  | 0, _ => []
  | k + 1, bs => fromLE (bs.take 4) :: words32 k (bs.drop 4)

/-- `BitSequenceRG::load`: `none` for a foreign header (the C++ aborts), a zero factor (division by
zero in `n / s`) or a short stream. -/
def loadImg (inp : List UInt8) : Option (Img × List UInt8) :=
  match readLE 4 inp with
  | none => none
  | some (type, r) =>
    if type ≠ HDR then none else
    match readLE 8 r with
    | none => none
    | some (n, r) =>
    match readLE 8 r with
    | none => none
    | some (factor, r) =>
      if factor = 0 then none else
      let integers := (n + 1) / W + (if (n + 1) % W ≠ 0 then 1 else 0)
      if r.length < 4 * integers then none else
      let data := words32 integers r
      let r := r.drop (4 * integers)
      let nRs := n / (W * factor) + 1
      if r.length < 4 * nRs then none else
      some ({ n := n, factor := factor, data := data, Rs := words32 nRs r }, r.drop (4 * nRs))

/-- The object the constructor builds from a word array: `BuildRank` fills `Rs[j]` with the ones of the
first `j · factor` words. -/
def build (words : List Nat) (n factor : Nat) : Img :=
  { n := n, factor := factor, data := words.take (n / W + 1) ++ List.replicate (n / W + 1 - words.length) 0,
    Rs := (List.range (n / (W * factor) + 1)).map fun j => Rs (words.take (n / W + 1)) factor j }

end CSD.RG
