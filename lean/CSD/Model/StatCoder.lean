/-
  Model of `StatCoder::encodeSymbol` / `encodeString` (`utils/Coder/StatCoder.cpp`): the codeword of a
  symbol (right-aligned in a 32-bit word, `bits` long) is written most significant bit first into a byte
  buffer at bit offset `*offset` of the byte under construction, with the 32-bit shifts of the C++.
-/
namespace CSD.StatCoder

/-- `(uchar)((codeword << (W - bits + processed)) >> (W - 8 + offset))` in 32-bit arithmetic. -/
def code (cw bits processed off : Nat) : Nat :=
  (((cw <<< (32 - bits + processed)) % 2 ^ 32) >>> (24 + off)) % 2 ^ 8

/-- The `while ((bits - processed) >= (8 - *offset))` loop: completed bytes are appended to `done`,
`cur` is `text[bytes]`. -/
def fill (cw bits : Nat) : Nat → Nat → Nat → Nat → List Nat → Option (Nat × Nat × Nat × List Nat)
  | 0, _, _, _, _ => none
  | fuel + 1, processed, off, cur, done =>
    if bits - processed ≥ 8 - off then
      fill cw bits fuel (processed + (8 - off)) 0 0 (done ++ [cur ||| code cw bits processed off])
    else some (processed, off, cur, done)

/-- `encodeSymbol`: the bytes completed by this symbol, the byte under construction and the new offset. -/
def encodeSymbol (cw bits cur off : Nat) : Option (List Nat × Nat × Nat) :=
  match fill cw bits 6 0 off cur [] with
  | none => none
  | some (processed, off', cur', done) =>
    if bits > processed then some (done, cur' ||| code cw bits processed off', off' + (bits - processed))
    else some (done, cur', off')

/-- `encodeString`: all bytes, the last one padded with zeros when the offset is not 0. -/
def encodeString (cwOf : Nat → Nat × Nat) : List Nat → Nat → Nat → List Nat → Option (List Nat)
  | [], cur, off, done => some (if off > 0 then done ++ [cur] else done)
  | s :: w, cur, off, done =>
    match encodeSymbol (cwOf s).1 (cwOf s).2 cur off with
    | none => none
    | some (bytes, cur', off') => encodeString cwOf w cur' off' (done ++ bytes)

end CSD.StatCoder
