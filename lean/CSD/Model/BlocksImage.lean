/-
  Model of `StringDictionaryHASHRPDACBlocks::save` / `load` on bytes: type tag (125), `maxlength`, `cut_size`,
  `strings_qty`, the number of parts, then the first string of every part (length-prefixed), the starting ID
  of every part, and the parts themselves as StringDictionaryHASHRPDAC images.
-/
import CSD.Model.HRPDACImage

namespace CSD.BlocksImg
open CSD.LogSeq (leBytes fromLE readLE)

structure Img where
  maxlength : Nat
  cutSize : Nat
  stringsQty : Nat
  samples : List (List UInt8)
  starts : List Nat
  parts : List HRPDACImg.Img

def saveSamples (l : List (List UInt8)) : List UInt8 := l.flatMap fun s => leBytes s.length 4 ++ s
def saveStarts (l : List Nat) : List UInt8 := l.flatMap fun x => leBytes x 8
def saveParts (l : List HRPDACImg.Img) : List UInt8 := l.flatMap HRPDACImg.save

/-- `StringDictionaryHASHRPDACBlocks::save`. -/
def save (d : Img) : List UInt8 :=
  leBytes 125 4 ++ leBytes d.maxlength 4 ++ leBytes d.cutSize 8 ++ leBytes d.stringsQty 8 ++ leBytes d.parts.length 4 ++
    saveSamples d.samples ++ saveStarts d.starts ++ saveParts d.parts

def readSamples : Nat → List UInt8 → Option (List (List UInt8) × List UInt8)
  | 0, inp => some ([], inp)
  | n + 1, inp =>
    match readLE 4 inp with
    | none => none
    | some (len, r) =>
      if r.length < len then none else
      match readSamples n (r.drop len) with
      | none => none
      | some (l, rest) => some (r.take len :: l, rest)

def readStarts : Nat → List UInt8 → Option (List Nat × List UInt8)
  | 0, inp => some ([], inp)
  | n + 1, inp =>
    match readLE 8 inp with
    | none => none
    | some (x, r) =>
      match readStarts n r with
      | none => none
      | some (l, rest) => some (x :: l, rest)

def readParts : Nat → List UInt8 → Option (List HRPDACImg.Img × List UInt8)
  | 0, inp => some ([], inp)
  | n + 1, inp =>
    match HRPDACImg.load inp with
    | none => none
    | some (p, r) =>
      match readParts n r with
      | none => none
      | some (l, rest) => some (p :: l, rest)

/-- `StringDictionaryHASHRPDACBlocks::load`. -/
def load (inp : List UInt8) : Option (Img × List UInt8) :=
  match readLE 4 inp with
  | none => none
  | some (t, r) =>
    if t ≠ 125 then none else
    match readLE 4 r with
    | none => none
    | some (ml, r) =>
    match readLE 8 r with
    | none => none
    | some (cs, r) =>
    match readLE 8 r with
    | none => none
    | some (sq, r) =>
    match readLE 4 r with
    | none => none
    | some (np, r) =>
    match readSamples np r with
    | none => none
    | some (sm, r) =>
    match readStarts np r with
    | none => none
    | some (st, r) =>
    match readParts np r with
    | none => none
    | some (ps, rest) =>
      some ({ maxlength := ml, cutSize := cs, stringsQty := sq, samples := sm, starts := st, parts := ps }, rest)

end CSD.BlocksImg
