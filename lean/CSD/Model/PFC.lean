/-
  Model of `StringDictionaryPFC.cpp` (Plain Front Coding) and of
  `iterators/IteratorDictStringPFC.h`.

  A C++ `uchar *` into `textStrings` is modelled by the *remaining bytes*
  (`List UInt8`, the suffix of the text starting at the pointer); reading past
  the end of the text is `none`, so every `some` result certifies that the reads
  of the C++ routine stay inside `textStrings[0 .. bytesStrings)`.

  Layout produced by the constructor, bucket by bucket:
      header '\0'  { VByte(lcp with previous) suffix '\0' }*
  `bl` is the positional index `blStrings`: entry 0 is 0, entry k (1 ≤ k ≤
  buckets) is the offset of bucket k, entry buckets+1 is `bytesStrings`.
-/
import CSD.Spec
import CSD.Model.VByte
import CSD.Model.LogSeq

namespace CSD.PFC

/-- Length of the longest common prefix. -/
def lcp : Str → Str → Nat
  | a :: as, b :: bs => if a = b then lcp as bs + 1 else 0
  | _, _ => 0

/-- The bytes the constructor appends for a non-header string. -/
def encInternal (prev cur : Str) : List UInt8 :=
  VByte.encode (lcp prev cur) ++ cur.drop (lcp prev cur) ++ [0]

/-- Internal strings of a bucket, each coded against its predecessor. -/
def encTail (prev : Str) : List Str → List UInt8
  | [] => []
  | s :: rest => encInternal prev s ++ encTail s rest

/-- One bucket: explicit header, then the front-coded rest. -/
def encBucket : List Str → List UInt8
  | [] => []
  | h :: rest => h ++ [0] ++ encTail h rest

/-- Consecutive groups of `b` strings (the last one may be shorter). -/
def chunks (b : Nat) (S : List Str) : List (List Str) :=
  if h : b = 0 ∨ S = [] then [] else
    S.take b :: chunks b (S.drop b)
termination_by S.length
decreasing_by
  have : S ≠ [] := fun e => h (Or.inr e)
  have : 0 < S.length := List.length_pos_iff.mpr this
  simp only [List.length_drop]; omega

/-- The dictionary object (the fields `save` writes). -/
structure T where
  elements : Nat
  maxlength : Nat
  buckets : Nat
  bucketsize : Nat
  text : List UInt8
  bl : List Nat
  deriving Repr

/-- Offsets of the buckets inside the text, starting at `off`. -/
def offsetsFrom (off : Nat) : List (List UInt8) → List Nat
  | [] => []
  | e :: rest => off :: offsetsFrom (off + e.length) rest

/-- `StringDictionaryPFC(it, bucketsize)` — the bucket size is clamped to 2 first. -/
def build (b0 : Nat) (S : List Str) : T :=
  let b := if b0 < 2 then 2 else b0
  let encs := (chunks b S).map encBucket
  let text := encs.flatten
  { elements := S.length
    maxlength := S.foldl (fun m s => if s.length ≥ m then s.length + 1 else m) 0
    buckets := encs.length
    bucketsize := b
    text := text
    bl := 0 :: offsetsFrom 0 encs ++ [text.length] }

/-! ### Reading -/

/-- `strlen` + copy: the bytes up to the next NUL and the pointer after it. -/
def readCStr : List UInt8 → Option (Str × List UInt8)
  | [] => none
  | c :: rest =>
    if c = 0 then some ([], rest)
    else match readCStr rest with
      | some (s, r) => some (c :: s, r)
      | none => none

/-- `getHeader`: pointer to bucket `k` via the positional index. -/
def bucketPtr (d : T) (k : Nat) : Option (List UInt8) :=
  match d.bl[k]? with
  | some off => if off ≤ d.text.length then some (d.text.drop off) else none
  | none => none

/-- `ptr += VByte::decode(&lenPrefix, ptr); decodeNextString(&ptr, lenPrefix, decoded, &decLen)`.
The previous string stays in the buffer below `lenPrefix`; a prefix length
beyond it would expose stale bytes, reported as `none`. -/
def decodeNext (ptr : List UInt8) (prev : Str) : Option (Str × List UInt8) :=
  match VByte.decode ptr with
  | none => none
  | some (lenPrefix, used) =>
    if lenPrefix > prev.length then none else
    match readCStr (ptr.drop used) with
    | some (suffix, rest) => some (prev.take lenPrefix ++ suffix, rest)
    | none => none

/-- `pos` applications of `decodeNext`. -/
def decodeSteps : Nat → List UInt8 → Str → Option (Str × List UInt8)
  | 0, ptr, cur => some (cur, ptr)
  | k + 1, ptr, cur =>
    match decodeNext ptr cur with
    | some (s, rest) => decodeSteps k rest s
    | none => none

/-- `StringDictionaryPFC::extract(id, &strLen)`: `some none` is the NULL
answer for an ID outside `[1, elements]`, `none` is a read outside the text. -/
def extract (d : T) (id : Nat) : Option (Option Str) :=
  if id > 0 ∧ id ≤ d.elements then
    let idbucket := 1 + (id - 1) / d.bucketsize
    let pos := (id - 1) % d.bucketsize
    match bucketPtr d idbucket with
    | none => none
    | some p =>
      match readCStr p with
      | none => none
      | some (hdr, rest) =>
        match decodeSteps pos rest hdr with
        | some (s, _) => some (some s)
        | none => none
  else some none

/-! ### locate -/

/-- Outcome of `locateBucket`. -/
inductive BucketRes where
  | header (idbucket : Nat)       -- the string is the header of this bucket
  | candidate (idbucket : Nat)    -- candidate bucket (0 = before every header)
  deriving Repr, DecidableEq

/-- Binary search on the bucket headers (`strcmp` on `textStrings + bl[center]`).
`fuel` bounds the number of iterations (`right - left + 1` always suffices).
Returns `none` for a read outside the text. -/
def locateBucketLoop (d : T) (q : Str) : Nat → Nat → Nat → Nat → Int → Option BucketRes
  | 0, _, _, center, cmp => some (.candidate (if cmp < 0 then center else center - 1))
  | fuel + 1, left, right, center, cmp =>
    if left ≤ right then
      let center := (left + right) / 2
      match bucketPtr d center with
      | none => none
      | some p =>
        match readCStr p with
        | none => none
        | some (hdr, _) =>
          let cmp := scmp hdr q
          if cmp > 0 then locateBucketLoop d q fuel left (center - 1) center cmp
          else if cmp < 0 then locateBucketLoop d q fuel (center + 1) right center cmp
          else some (.header center)
    else some (.candidate (if cmp < 0 then center else center - 1))

def locateBucket (d : T) (q : Str) : Option BucketRes :=
  locateBucketLoop d q (d.buckets + 1) 1 d.buckets 0 0

/-- `longestCommonPrefix(decoded + shared, str + shared, decLen - shared + 1, &shared)`
on NUL-terminated strings: returns the sign information and the new shared length. -/
def cmpFrom (decoded q : Str) (shared : Nat) : Int × Nat :=
  let a := decoded.drop shared
  let b := q.drop shared
  (scmp a b, shared + lcp a b)

/-- The `for (i = 2; i < scanneable; i++)` loop of `locate`. Returns the in-bucket
index of the match (the C++ `i + 1`), or 0. -/
def scanLoop (q : Str) : Nat → Nat → Nat → List UInt8 → Str → Nat → Int → Option Nat
  | 0, _, _, _, _, _, _ => some 0
  | fuel + 1, i, scanneable, ptr, decoded, sharedCurr, cmp =>
    if i < scanneable then
      match VByte.decode ptr with
      | none => none
      | some (sharedPrev, used) =>
        if sharedPrev < sharedCurr then some 0
        else if sharedPrev > decoded.length then none
        else match readCStr (ptr.drop used) with
          | none => none
          | some (suffix, rest) =>
            let decoded' := decoded.take sharedPrev ++ suffix
            let (cmp', shared') :=
              if sharedPrev = sharedCurr then cmpFrom decoded' q sharedCurr else (cmp, sharedCurr)
            if cmp' = 0 then some (i + 1)
            else if cmp' > 0 then some 0
            else scanLoop q fuel (i + 1) scanneable rest decoded' shared' cmp'
    else some 0

/-- `StringDictionaryPFC::locate`. -/
def locate (d : T) (q : Str) : Option Nat :=
  match locateBucket d q with
  | none => none
  | some (.header k) => some ((k - 1) * d.bucketsize + 1)
  | some (.candidate 0) => some 0
  | some (.candidate k) =>
    match bucketPtr d k with
    | none => none
    | some p =>
      match readCStr p with
      | none => none
      | some (hdr, rest) =>
        let scanneable :=
          if k = d.buckets ∧ d.elements % d.bucketsize ≠ 0 then d.elements % d.bucketsize else d.bucketsize
        if scanneable > 1 then
          match decodeNext rest hdr with
          | none => none
          | some (decoded, rest') =>
            let (cmp, shared) := cmpFrom decoded q 0
            if cmp ≠ 0 then
              match scanLoop q scanneable 2 scanneable rest' decoded shared cmp with
              | none => none
              | some 0 => some 0
              | some j => some ((k - 1) * d.bucketsize + j)
            else some ((k - 1) * d.bucketsize + 2)
        else some 0

/-! ### table scan (IteratorDictStringPFC) -/

/-- Iterator state: pointer, position in bucket, current string, processed count. -/
structure Iter where
  ptr : List UInt8
  pos : Nat
  bucketsize : Nat
  cur : Str
  processed : Nat
  scanneable : Nat

def Iter.hasNext (it : Iter) : Bool := it.processed < it.scanneable

/-- `IteratorDictStringPFC::next`. -/
def Iter.next (it : Iter) : Option (Str × Iter) :=
  if it.pos % it.bucketsize = 0 then
    match readCStr it.ptr with
    | none => none
    | some (s, rest) => some (s, { it with ptr := rest, pos := 1, cur := s, processed := it.processed + 1 })
  else
    match decodeNext it.ptr it.cur with
    | none => none
    | some (s, rest) => some (s, { it with ptr := rest, pos := it.pos + 1, cur := s, processed := it.processed + 1 })

/-- Drain an iterator (`while (hasNext()) next()`); fuel = scanneable. -/
def Iter.drain : Nat → Iter → Option (List Str)
  | 0, _ => some []
  | fuel + 1, it =>
    if it.hasNext then
      match it.next with
      | none => none
      | some (s, it') =>
        match Iter.drain fuel it' with
        | some l => some (s :: l)
        | none => none
    else some []

/-- The constructor of `IteratorDictStringPFC` with `offset` internal strings to discard: the header is
copied and `offset - 1` strings are decoded, so that the first `next()` decodes the string at in-bucket
position `offset`. -/
def Iter.open (ptr : List UInt8) (offset bucketsize scanneable : Nat) : Option Iter :=
  if offset > 0 then
    match readCStr ptr with
    | none => none
    | some (h, rest) =>
      match decodeSteps (offset - 1) rest h with
      | none => none
      | some (cur, rest') =>
        some { ptr := rest', pos := offset, bucketsize := bucketsize, cur := cur, processed := 0, scanneable := scanneable }
  else some { ptr := ptr, pos := 0, bucketsize := bucketsize, cur := [], processed := 0, scanneable := scanneable }

/-- The string iterator over the ID range `[left, right]` (`extractPrefix` after `locatePrefix`), drained. -/
def scanRange (d : T) (left right : Nat) : Option (List Str) :=
  let leftbucket := 1 + (left - 1) / d.bucketsize
  let leftpos := (left - 1) % d.bucketsize
  match bucketPtr d leftbucket with
  | none => none
  | some p =>
    match Iter.open p leftpos d.bucketsize (right - left + 1) with
    | none => none
    | some it => Iter.drain d.elements it

/-- `extractTable()`. -/
def table (d : T) : Option (List Str) :=
  match bucketPtr d 1 with
  | none => none
  | some p => Iter.drain d.elements
      { ptr := p, pos := 0, bucketsize := d.bucketsize, cur := [], processed := 0, scanneable := d.elements }

/-! ### save -/

def u32le (n : Nat) : List UInt8 := LogSeq.leBytes n 4
def u64le (n : Nat) : List UInt8 := LogSeq.leBytes n 8

/-- `bits(n)` of libcdsBasics: number of bits needed for `n`. -/
def bits (n : Nat) : Nat := if n = 0 then 0 else Nat.log2 n + 1

/-- `StringDictionaryPFC::save`: type, elements, maxlength, buckets, bucketsize,
bytesStrings, the text, then the positional index as a LogSequence. `none` if
the positional index cannot be represented (never for a built dictionary). -/
def save (d : T) : Option (List UInt8) :=
  match LogSeq.ofList d.bl (bits d.text.length) with
  | none => none
  | some ls =>
    some (u32le 211 ++ u64le d.elements ++ u32le d.maxlength ++ u32le d.buckets ++ u32le d.bucketsize ++
      u64le d.text.length ++ d.text ++ ls.save)

end CSD.PFC
