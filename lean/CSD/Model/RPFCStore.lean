/-
  The executable check the driver runs on every RPFC object exported by the real code: the symbol
  stream of a bucket stores the bucket's strings one by one.  `CSD.RPFC.bucketStores_sound` proves
  that a successful check gives the hypotheses (`StoresTail`, `ChainOK`) of the RPFC theorems.
-/
import CSD.Model.RPFC

namespace CSD.RPFC
open CSD.RePair CSD.PFC

def natsOf (s : Str) : List Nat := s.map (·.toNat)

/-- What the symbols of one internal string expand to: `VByte(lcp) ++ suffix ++ [maxchar]`. -/
def entry (maxchar : Nat) (prev cur : Str) : List Nat :=
  natsOf (VByte.encode (lcp prev cur)) ++ natsOf (cur.drop (lcp prev cur)) ++ [maxchar]

/-- Consume the symbols of one string: their expansions (all non-empty) must add up to exactly `want`. -/
def takeEntry (g : Grammar) (want : List Nat) : Nat → List Nat → List Nat → Option (List Nat)
  | 0, _, _ => none
  | fuel + 1, st, acc =>
    if acc = want then some st
    else match st with
      | [] => none
      | r :: st' => if g.expandSym r = [] then none else takeEntry g want fuel st' (acc ++ g.expandSym r)

/-- The stream stores the strings `rest` after `prev`, each decodable on its predecessor. -/
def bucketStores (g : Grammar) (maxchar : Nat) : Str → List Str → List Nat → Bool
  | _, [], st => st.isEmpty
  | prev, cur :: rest, st =>
    decide (lcp prev cur < 16384) && !(cur.drop (lcp prev cur)).isEmpty && cur.all (fun b => b.toNat != maxchar) &&
    match takeEntry g (entry maxchar prev cur) ((entry maxchar prev cur).length + 2) st [] with
    | none => false
    | some st' => bucketStores g maxchar cur rest st'

/-- The whole check: counters, headers and one storing stream per bucket. -/
def storesB (S : List Str) (d : D) : Bool :=
  decide (2 ≤ d.bucketsize) && decide (d.elements = S.length) &&
  decide (d.buckets = (chunks d.bucketsize S).length) &&
  decide (d.headers = (chunks d.bucketsize S).map (·.headD [])) &&
  decide (d.streams.length = (chunks d.bucketsize S).length) &&
  ((chunks d.bucketsize S).zip d.streams).all fun cs => bucketStores d.g d.maxchar (cs.1.headD []) (cs.1.drop 1) cs.2

end CSD.RPFC
