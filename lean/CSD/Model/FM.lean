/-
  Model of the FM-index behind `StringDictionaryFMINDEX`:
  `FMIndex/SSA.cpp` (`locate_id`, `locateP`, `locate`, `extract_id`, the part of
  `build_index` / `build_bwt` that derives `bwt`, `occ`, `alphabet`, `sampled`,
  `suff_sample` from the suffix array) and the dictionary layer of
  `StringDictionaryFMINDEX.cpp` (text layout, `locate`, `extract`, `locatePrefix`,
  `locateSubstr`).

  Symbols are `Nat` (the wavelet tree stores `uint`).  The BWT sequence is a plain
  list: `bwt->rank(c, i)` is a count over a prefix, `bwt->access(i, r)` returns the
  symbol with its inclusive rank (the wavelet tree itself is compared with exactly
  these definitions by the `bits` stream of C19).  A read outside `occ`,
  `alphabet`, `bwt`, `sampled` or `suff_sample`, and an unsigned subtraction that
  would wrap, are `none`.

  The suffix array is not an array of positions here but the sorted list of
  *rows*: a suffix of the text together with the symbol in front of it (`none` for
  the whole text).  `IsSA T L` says `L` is a permutation of the rows of `T`
  sorted by suffix; suffix sorting itself (`FMIndex/SuffixArray.cpp`) is not
  modelled — every theorem holds for every `L` with `IsSA T L`, and the driver
  checks the exported BWT of the real index against it on every run.
-/
import CSD.Spec

namespace CSD.FM

/-- Symbols are plain naturals (a notation, so that arithmetic tactics see `Nat`). -/
scoped notation "Sym" => Nat

/-- A row of the conceptual suffix array: the symbol preceding the suffix in the
text (`none` for the whole text) and the suffix. -/
abbrev Row := Option Sym × List Sym

/-- All suffixes of a text, longest first, each with the symbol in front of it. -/
def rowsFrom (p : Option Sym) : List Sym → List Row
  | [] => [(p, [])]
  | x :: t => (p, x :: t) :: rowsFrom (some x) t

def rows (T : List Sym) : List Row := rowsFrom none T

/-- `L` is the suffix array of `T`: the rows of `T`, strictly sorted by suffix
(`SSA::cmp`: symbol by symbol, a proper prefix is smaller). -/
def IsSA (T : List Sym) (L : List Row) : Prop :=
  L.Perm (rows T) ∧ L.Pairwise (fun a b => a.2 < b.2)

/-- `_bwt[i] = (_sa[i] == 0) ? 0 : _seq[_sa[i] - 1]`. -/
def Row.bwt (r : Row) : Sym := r.1.getD 0

/-- The query-time object (`SSA` after `build_index` or `load`). -/
structure Index where
  bwt : List Sym
  occ : List Nat
  alphabet : List Bool
  samplesuff : Nat
  sampled : List Bool
  suffSample : List Nat
  deriving Repr

/-- Occurrences of `c` among the first `k` symbols: `bwt->rank(c, k - 1)`. -/
def cnt (bwt : List Sym) (c : Sym) (k : Nat) : Nat := (bwt.take k).count c

/-- Outcome of the backward search. -/
inductive BS where
  | notInAlphabet            -- `if (!alphabet[c]) return 0`
  | range (sp ep : Nat)      -- the loop ended with these bounds (possibly `sp > ep`)
  deriving Repr, DecidableEq

/-- `while (sp <= ep && i >= 1) { c = pattern[--i]; … }` — `rest` is the part of
the pattern not yet consumed, last symbol first. -/
def bsLoop (ix : Index) : List Sym → Nat → Nat → Option BS
  | [], sp, ep => some (.range sp ep)
  | c :: rest, sp, ep =>
    if sp ≤ ep then
      match ix.alphabet[c]? with
      | none => none
      | some false => some .notInAlphabet
      | some true =>
        match ix.occ[c]? with
        | none => none
        | some oc =>
          if sp = 0 then none                       -- `sp - 1` would wrap
          else if ix.bwt.length ≤ ep then none      -- rank past the sequence
          else
            let r := cnt ix.bwt c (ep + 1)
            if oc + r = 0 then none                 -- `… - 1` would wrap
            else bsLoop ix rest (oc + cnt ix.bwt c sp) (oc + r - 1)
    else some (.range sp ep)

/-- The common head of `locate_id`, `locateP` and `locate`. -/
def bsearch (ix : Index) (pat : List Sym) : Option BS :=
  match pat.reverse with
  | [] => none                                      -- `pattern[m - 1]` with `m = 0`
  | c :: rest =>
    match ix.alphabet[c]? with
    | none => none
    | some false => some .notInAlphabet
    | some true =>
      match ix.occ[c]?, ix.occ[c + 1]? with
      | some a, some b => if b = 0 then none else bsLoop ix rest a (b - 1)
      | _, _ => none

/-- `SSA::locate_id`. -/
def locateId (ix : Index) (pat : List Sym) : Option Nat :=
  match bsearch ix pat with
  | none => none
  | some .notInAlphabet => some 0
  | some (.range sp ep) => some (if sp ≤ ep then sp else 0)

/-- `SSA::locateP`: number of rows and the limits `sp - 2`, `ep - 2`. -/
def locateP (ix : Index) (pat : List Sym) : Option (Nat × Nat × Nat) :=
  match bsearch ix pat with
  | none => none
  | some .notInAlphabet => some (0, 0, 0)
  | some (.range sp ep) =>
    if sp ≤ ep then (if sp < 2 then none else some (ep - sp + 1, sp - 2, ep - 2)) else some (0, 0, 0)

/-- `bwt->access(i, rank_tmp)`: the symbol at `i` and the number of its occurrences in `[0, i]`. -/
def access (bwt : List Sym) (i : Nat) : Option (Sym × Nat) :=
  match bwt[i]? with
  | some c => some (c, cnt bwt c (i + 1))
  | none => none

/-- The loop of `SSA::extract_id`: walk backwards until the separator. `acc` holds the
symbols found so far (the C++ buffer is filled from its end); the buffer has room for
`maxLen + 1` symbols. -/
def extractLoop (ix : Index) (maxLen : Nat) : Nat → Nat → List Sym → Option (List Sym)
  | 0, _, _ => none
  | fuel + 1, i, acc =>
    match access ix.bwt i with
    | none => none
    | some (c, r) =>
      if c = 1 then some acc
      else if maxLen < acc.length then none          -- `res[pos]` with `pos` wrapped
      else match ix.occ[c]? with
        | none => none
        | some oc => if r = 0 then none else extractLoop ix maxLen fuel (r - 1 + oc) (c :: acc)

def extractId (ix : Index) (id maxLen : Nat) : Option (List Sym) :=
  extractLoop ix maxLen (ix.bwt.length + 1) id []

/-- One occurrence of `SSA::locate`: from row `j` walk backwards to a sampled row or to
the start of a string; the answer is a string ID in both cases. -/
def walk (ix : Index) : Nat → Nat → Option Nat
  | 0, _ => none
  | fuel + 1, j =>
    match ix.sampled[j]? with
    | none => none
    | some true =>
      let r := (ix.sampled.take (j + 1)).count true
      if r = 0 then none else ix.suffSample[r - 1]?
    | some false =>
      match access ix.bwt j with
      | none => none
      | some (c, r) =>
        if r = 0 then none
        else if c = 1 then some (r - 1)
        else match ix.occ[c]? with
          | none => none
          | some oc => walk ix fuel (oc + (r - 1))

def walkAll (ix : Index) : List Nat → Option (List Nat)
  | [] => some []
  | i :: is =>
    match walk ix (ix.bwt.length + 1) i, walkAll ix is with
    | some a, some l => some (a :: l)
    | _, _ => none

/-- `SSA::locate`: `none` = fault, `some none` = no array (`*occs = NULL`, 0 matches). -/
def locateOccs (ix : Index) (pat : List Sym) : Option (Option (List Nat)) :=
  if ix.samplesuff = 0 then some none else
  match bsearch ix pat with
  | none => none
  | some .notInAlphabet => some none
  | some (.range sp ep) =>
    if sp ≤ ep then (walkAll ix ((List.range (ep - sp + 1)).map (sp + ·))).map some
    else some none

/-! ### Dictionary layer (`StringDictionaryFMINDEX.cpp`) -/

def symsOf (s : Str) : List Sym := s.map (·.toNat)

/-- What follows the leading separator: `s₁ \1 s₂ \1 … sₙ \1 \0`. -/
def body : List Str → List Sym
  | [] => [0]
  | s :: rest => symsOf s ++ 1 :: body rest

/-- The indexed text: `\1 s₁ \1 … sₙ \1 \0`. -/
def mkText (S : List Str) : List Sym := 1 :: body S

structure Dict where
  elements : Nat
  maxlength : Nat
  ix : Index

/-- `StringDictionaryFMINDEX::locate`. -/
def Dict.locate (d : Dict) (s : Str) : Option Nat :=
  match locateId d.ix (1 :: symsOf s ++ [1]) with
  | none => none
  | some 0 => some 0
  | some o => if o < 2 then none else some (o - 2)

/-- `StringDictionaryFMINDEX::extract`: `some none` is the NULL answer. -/
def Dict.extract (d : Dict) (id : Nat) : Option (Option (List Sym)) :=
  if id > 0 ∧ id ≤ d.elements then
    (extractId d.ix (if id = d.elements then 2 else id + 3) d.maxlength).map some
  else some none

/-- `StringDictionaryFMINDEX::locatePrefix`: the limits of the contiguous iterator. -/
def Dict.locatePrefix (d : Dict) (p : Str) : Option (Nat × Nat) :=
  match locateP d.ix (1 :: symsOf p) with
  | none => none
  | some (0, _, _) => some (0, 0)
  | some (_, l, r) => some (l, r)

/-- Insertion into an ascending list (`std::sort` of the occurrence array). -/
def insertSorted (x : Nat) : List Nat → List Nat
  | [] => [x]
  | y :: l => if x ≤ y then x :: y :: l else y :: insertSorted x l

def sortNat (l : List Nat) : List Nat := l.foldr insertSorted []

/-- Adjacent repetitions removed (`IteratorDictIDDuplicates`, see `CSD.Dups`). -/
def dedupAdj : List Nat → List Nat
  | [] => []
  | [x] => [x]
  | x :: y :: l => if x = y then dedupAdj (y :: l) else x :: dedupAdj (y :: l)

/-- `StringDictionaryFMINDEX::locateSubstr` (with BWT sampling): the IDs the iterator yields. -/
def Dict.locateSubstr (d : Dict) (p : Str) : Option (List Nat) :=
  match locateOccs d.ix (symsOf p) with
  | none => none
  | some none => some []
  | some (some occs) => some (dedupAdj (sortNat occs))


/-! ### String iterator (`iterators/IteratorDictStringFMINDEX.h`) -/

/-- `processed` is the next ID, `scanneable` one past the last ID of the scan, `last` the last ID of the dictionary. -/
structure SIter where
  processed : Nat
  scanneable : Nat
  last : Nat

def SIter.hasNext (it : SIter) : Bool := it.processed < it.scanneable

/-- `IteratorDictStringFMINDEX::next`: row 2 for the last ID of the dictionary, `ID + 3` otherwise. -/
def Dict.iterNext (d : Dict) (it : SIter) : Option (List Sym × SIter) :=
  match extractId d.ix (if it.processed = it.last then 2 else it.processed + 3) d.maxlength with
  | none => none
  | some s => some (s, { it with processed := it.processed + 1 })

/-- `while (hasNext()) next()`. -/
def Dict.drain (d : Dict) : Nat → SIter → Option (List (List Sym))
  | 0, _ => some []
  | fuel + 1, it =>
    if it.hasNext then
      match d.iterNext it with
      | none => none
      | some (s, it') =>
        match d.drain fuel it' with
        | some l => some (s :: l)
        | none => none
    else some []

/-- `StringDictionaryFMINDEX::extractTable`. -/
def Dict.extractTable (d : Dict) : Option (List (List Sym)) :=
  d.drain d.elements { processed := 1, scanneable := d.elements + 1, last := d.elements }

/-- `StringDictionaryFMINDEX::extractPrefix`: `some none` is the NULL iterator. -/
def Dict.extractPrefix (d : Dict) (p : Str) : Option (Option (List (List Sym))) :=
  match locateP d.ix (1 :: symsOf p) with
  | none => none
  | some (0, _, _) => some none
  | some (_, l, r) => (d.drain (r + 1 - l) { processed := l, scanneable := r + 1, last := d.elements }).map some

/-- `IteratorDictStringFMINDEXDuplicates` drained over the sorted occurrence array: `next` extracts the string of
`ids[processed]` and then advances `do processed++ while (ids[processed-1] == ids[processed])` — repetitions of
the ID just returned are skipped (`prev`). The loop stops at the sentinel `0` the caller writes behind the last
ID only because no ID is 0: an ID 0 in the array would carry the loop past the array and is a model fault. -/
def Dict.drainIds (d : Dict) : Option Nat → List Nat → Option (List (List Sym))
  | _, [] => some []
  | prev, x :: l =>
    if x = 0 then none
    else if prev = some x then d.drainIds prev l
    else
      match extractId d.ix (if x = d.elements then 2 else x + 3) d.maxlength with
      | none => none
      | some s =>
        match d.drainIds (some x) l with
        | none => none
        | some r => some (s :: r)

/-- `StringDictionaryFMINDEX::extractSubstr` (with BWT sampling): `some none` is the NULL iterator. -/
def Dict.extractSubstr (d : Dict) (p : Str) : Option (Option (List (List Sym))) :=
  match locateOccs d.ix (symsOf p) with
  | none => none
  | some none => some none
  | some (some occs) => (d.drainIds none (sortNat occs)).map some

/-! ### What `build_index` derives from the suffix array -/

/-- Text position of a row's suffix in a text of length `n`. -/
def Row.pos (n : Nat) (r : Row) : Nat := n - r.2.length

/-- `separators->rank1(pos)`: separators (symbol 1) in `T[0 .. pos]`. -/
def sepRank (T : List Sym) (pos : Nat) : Nat := (T.take (pos + 1)).count 1

/-- Number of text symbols below `c`, plus one for the empty suffix: `occ[c]`. -/
def occOf (T : List Sym) (c : Sym) : Nat := T.countP (· < c) + 1

def buildIndex (T : List Sym) (L : List Row) (samplesuff : Nat) : Index :=
  let bwt := L.map Row.bwt
  let mx := bwt.foldl max 0
  let n := T.length
  { bwt := bwt
    -- the artificial 0 of the row of the whole text is counted like a text symbol
    occ := (List.range (mx + 2)).map fun c => if c = 0 then 0 else occOf T c
    alphabet := (List.range 256).map fun c => bwt.contains c
    samplesuff := samplesuff
    sampled := if samplesuff = 0 then [] else L.map (fun r => r.pos n % samplesuff == 0)
    suffSample := if samplesuff = 0 then [] else
      (L.filter fun r => r.pos n % samplesuff == 0).map fun r => sepRank T (r.pos n) }

/-- Suffix sorting for the driver (merge sort with the order of `SSA::cmp`). -/
def sortRows (T : List Sym) : List Row :=
  (rows T).mergeSort fun a b => decide (a.2 ≤ b.2)

def buildDict (S : List Str) (samplesuff : Nat) : Dict :=
  let T := mkText S
  { elements := S.length
    maxlength := S.foldl (fun m s => if s.length ≥ m then s.length + 1 else m) 0
    ix := buildIndex T (sortRows T) samplesuff }

end CSD.FM
