/-
  Model of `utils/VByte.cpp` (and of the identical `encodeVB2/decodeVB2` in
  `utils/Utils.h`).

  C++ (`uint c`, `uchar *r`):
      encode: while (c > 127) { r[i] = c & 127; i++; c >>= 7; }  r[i] = c | 0x80; i++; return i;
      decode: *c = 0; i = 0; shift = 0;
              while (!(r[i] & 0x80)) { *c |= (r[i] & 127) << shift; i++; shift += 7; }
              *c |= (r[i] & 127) << shift; i++; return i;

  `encode` is modelled over `Nat` (it is exact for every `c`, the 32-bit width
  only bounds the input); `decode` is modelled twice: ideally over `Nat`, and
  as the 32-bit machine computes it (`decode32`: accumulator reduced mod 2^32,
  a shift count ≥ 32 reported as a fault).
-/
namespace CSD.VByte

/-- Bytes written by `VByte::encode(c, r)`, in order. -/
def encode (c : Nat) : List UInt8 :=
  if h : c > 127 then (c % 128).toUInt8 :: encode (c / 128)
  else [(c + 128).toUInt8]
decreasing_by omega

/-- `VByte::decode` over unbounded naturals: returns the value and the number
of bytes consumed, or `none` when the byte list ends before a terminator byte
(the C++ would read past the buffer). -/
def decodeAux : List UInt8 → (shift acc n : Nat) → Option (Nat × Nat)
  | [], _, _, _ => none
  | b :: rest, shift, acc, n =>
    if b.toNat ≥ 128 then some (acc ||| ((b.toNat % 128) <<< shift), n + 1)
    else decodeAux rest (shift + 7) (acc ||| ((b.toNat % 128) <<< shift)) (n + 1)

def decode (r : List UInt8) : Option (Nat × Nat) := decodeAux r 0 0 0

/-- Outcome of the 32-bit decode. -/
inductive Res32 where
  | ok (value consumed : Nat)
  | overrun            -- ran off the end of the buffer
  | shiftUB            -- `<< shift` with shift ≥ 32 on a 32-bit operand
  deriving Repr, DecidableEq

/-- `VByte::decode` as the machine computes it: `uint` accumulator, `int`
shift operand (a left shift by ≥ 32 is undefined). -/
def decode32Aux : List UInt8 → (shift acc n : Nat) → Res32
  | [], _, _, _ => .overrun
  | b :: rest, shift, acc, n =>
    if shift ≥ 32 then .shiftUB
    else
      let acc' := (acc ||| (((b.toNat % 128) <<< shift) % 2 ^ 32)) % 2 ^ 32
      if b.toNat ≥ 128 then .ok acc' (n + 1)
      else decode32Aux rest (shift + 7) acc' (n + 1)

def decode32 (r : List UInt8) : Res32 := decode32Aux r 0 0 0

end CSD.VByte
