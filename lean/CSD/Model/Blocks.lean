/-
  Model of the cutting rule and of the block protocol of
  `StringDictionaryHASHRPDACBlocks` (constructor with a worker pool).
-/
import CSD.Spec
import CSD.Model.Pool

namespace CSD.Blocks

/-- The constructor's accumulation rule: strings are appended to the current
block; the block is closed after a string if the input is exhausted or the
accumulated size (`length + 1` per string) exceeds `cut_size`. -/
def cutLoop (cutSize : Nat) : List Str → List Str → Nat → List (List Str)
  | [], _, _ => []
  | s :: rest, acc, sz =>
    let sz' := sz + s.length + 1
    if rest.isEmpty || sz' > cutSize then (s :: acc).reverse :: cutLoop cutSize rest [] 0
    else cutLoop cutSize rest (s :: acc) sz'

def cut (cutSize : Nat) (S : List Str) : List (List Str) := cutLoop cutSize S [] 0

/-- `cut_samples`: the first string of every block. -/
def samples (bs : List (List Str)) : List Str := bs.filterMap List.head?

/-- `starting_indexes`: the number of strings before each block. -/
def starts : Nat → List (List Str) → List Nat
  | _, [] => []
  | off, b :: bs => off :: starts (off + b.length) bs

/-- The `parts` vector as a function of the log of executed tasks: slot `i` is
filled (with the part built from block `i` alone) iff task `i` has run. -/
def partsOf {α : Type} (build : List Str → α) (blocks : List (List Str)) (ran : List Nat) : List (Option α) :=
  (blocks.zipIdx).map fun (b, i) => if i ∈ ran then some (build b) else none

end CSD.Blocks
