/-
  Model of `utils/DAC_VLS.cpp`: a list of non-empty symbol sequences stored level by level
  (level `j` holds the `j`-th symbols of the sequences longer than `j`, in input order), a bitmap
  telling for every entry of levels `0 … nLevels-2` whether its sequence continues, and direct
  access by rank arithmetic (`access`, `access_next`).

  The packing of the symbols into `base_bits`-wide fields of 32-bit words (`set_field`/`get_field`)
  is abstracted: `vals` is the list of field values.
-/
namespace CSD.DAC

structure T where
  nLevels : Nat
  listLength : Nat
  vals : List Nat          -- all levels, concatenated
  levelsIndex : List Nat   -- start of every level in `vals`; `nLevels + 1` entries
  bits : List Bool         -- entries of levels `0 … nLevels-2`, then the constructor's final mark
  rankLevels : List Nat
  deriving Repr

/-- Level `j`: the `j`-th symbols of the sequences that have one. -/
def level (L : List (List Nat)) (j : Nat) : List Nat := L.filterMap (·[j]?)

/-- Continuation bits of level `j`. -/
def levelBits (L : List (List Nat)) (j : Nat) : List Bool :=
  L.filterMap fun s => if j < s.length then some (decide (j + 1 < s.length)) else none

def maxLen (L : List (List Nat)) : Nat := L.foldl (fun m s => max m s.length) 0

/-- Prefix sums: `[0, a₀, a₀+a₁, …]`. -/
def sums : Nat → List Nat → List Nat
  | acc, [] => [acc]
  | acc, x :: xs => acc :: sums (acc + x) xs

def rank1 (bits : List Bool) (i : Nat) : Nat := ((bits.take (i + 1)).filter id).length

/-- `DAC_VLS(list, l_Length, log_r, max_seq_length)`. -/
def build (L : List (List Nat)) : T :=
  let n := maxLen L
  let lv := (List.range n).map (level L)
  let idx := sums 0 (lv.map List.length)
  let bits := ((List.range (n - 1)).map (levelBits L)).flatten ++ [true]
  { nLevels := n
    listLength := L.length
    vals := lv.flatten
    levelsIndex := idx
    bits := bits
    rankLevels := (List.range n).map fun j => if j = 0 then 0 else rank1 bits (idx.getD j 0 - 1) }

/-- The loop of `access`: `j` the current level, `ini` the current position. -/
def accessLoop (d : T) : Nat → Nat → Nat → List Nat → Option (List Nat)
  | 0, _, _, acc => some acc
  | fuel + 1, j, ini, acc =>
    if j + 1 < d.nLevels then
      match d.bits[ini]? with
      | none => none
      | some false => some acc
      | some true =>
        match d.rankLevels[j]?, d.levelsIndex[j + 1]? with
        | some rl, some li =>
          let r := rank1 d.bits ini
          if r ≤ rl then none else           -- `levelsIndex + rankini - 1` would wrap around
          let ini' := li + (r - rl) - 1
          match d.vals[ini']? with
          | some v => accessLoop d fuel (j + 1) ini' (acc ++ [v])
          | none => none
        | _, _ => none
    else some acc

/-- `access(pos, &seq)`: the sequence stored at (1-based) position `pos`. -/
def access (d : T) (pos : Nat) : Option (List Nat) :=
  if pos = 0 then none else
  match d.vals[pos - 1]? with
  | some v => accessLoop d d.nLevels 0 (pos - 1) [v]
  | none => none

end CSD.DAC
