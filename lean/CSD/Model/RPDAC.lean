/-
  Model of the query layer of `StringDictionaryRPDAC` over a Re-Pair grammar:
  `RePair::expandRuleAndCompareString`, `RePair::extractStringAndCompareDAC`,
  `StringDictionaryRPDAC::locate` (binary search over the IDs) and `extract`.

  The stored string with ID `id` is a sequence of grammar symbols (what `DAC_VLS::access` /
  `access_next` deliver, see `CSD/Model/DAC.lean`); the query is a C string: the caller's
  bytes followed by a NUL. A read outside that buffer is `none`.
-/
import CSD.Spec
import CSD.Model.RePair

namespace CSD.RPDAC
open CSD.RePair

/-- Compare one terminal with the query at `pos`: `(uchar)sym - str[pos]`, advancing on equality. -/
def cmpTerm (buf : List Nat) (sym pos : Nat) : Option (Int × Nat) :=
  match buf[pos]? with
  | none => none
  | some c => if sym ≠ c then some ((sym : Int) - c, pos) else some (0, pos + 1)

/-- `expandRuleAndCompareString(rule, str, &pos)`: left side, then right side, each either a
terminal or a nested rule; stops at the first difference. `fuel` bounds the nesting. -/
def cmpRule (g : Grammar) (buf : List Nat) : Nat → Nat → Nat → Option (Int × Nat)
  | 0, _, _ => none
  | fuel + 1, rule, pos =>
    match g.rules[rule]? with
    | none => none
    | some (l, r) =>
      let side (s p : Nat) : Option (Int × Nat) :=
        if s ≥ g.terminals then cmpRule g buf fuel (s - g.terminals) p else cmpTerm buf s p
      match side l pos with
      | none => none
      | some (c, p) => if c ≠ 0 then some (c, p) else side r p

/-- The `while (id != -1)` loop of `extractStringAndCompareDAC` over the symbols of the string. -/
def cmpSyms (g : Grammar) (buf : List Nat) : List Nat → Nat → Option (Int × Nat)
  | [], pos => some (0, pos)
  | s :: rest, pos =>
    let r := if s ≥ g.terminals then cmpRule g buf (g.rules.length + 1) (s - g.terminals) pos else cmpTerm buf s pos
    match r with
    | none => none
    | some (c, p) => if c ≠ 0 then some (c, p) else cmpSyms g buf rest p

/-- `extractStringAndCompareDAC(id, str, strLen)`: positive when the stored string is greater. -/
def compareDAC (g : Grammar) (syms : List Nat) (q : List Nat) : Option Int :=
  let buf := q ++ [0]
  match cmpSyms g buf syms 0 with
  | none => none
  | some (c, pos) =>
    if c ≠ 0 then some c
    else if pos = q.length then some 0
    else match buf[pos]? with
      | some b => some (-(b : Int))
      | none => none

/-- The dictionary as the query layer sees it. -/
structure D where
  g : Grammar
  seqs : List (List Nat)

/-- `StringDictionaryRPDAC::locate`: binary search on the IDs `left … right`. -/
def locateLoop (cmp : Nat → Option Int) : Nat → Nat → Nat → Option Nat
  | 0, _, _ => none
  | fuel + 1, left, right =>
    if left ≤ right then
      let center := (left + right) / 2
      match cmp center with
      | none => none
      | some c =>
        if c > 0 then locateLoop cmp fuel left (center - 1)
        else if c < 0 then locateLoop cmp fuel (center + 1) right
        else some center
    else some 0

def locate (d : D) (q : List Nat) : Option Nat :=
  locateLoop (fun id => match d.seqs[id - 1]? with
    | some syms => compareDAC d.g syms q
    | none => none) (d.seqs.length + 1) 1 d.seqs.length

/-- `StringDictionaryRPDAC::extract`. -/
def extract (d : D) (id : Nat) : Option (List Nat) :=
  if id = 0 ∨ id > d.seqs.length then none else
  match d.seqs[id - 1]? with
  | some syms => some (d.g.expand syms)
  | none => none

/-- `IteratorDictStringRPDAC`: `next` increments `processed`, reads the sequence at that position through the
DAC and expands it — what `extract(processed)` does. -/
structure SIter where
  processed : Nat
  scanneable : Nat

def iterNext (d : D) (it : SIter) : Option (List Nat × SIter) :=
  match d.seqs[it.processed]? with
  | some syms => some (d.g.expand syms, { it with processed := it.processed + 1 })
  | none => none                                   -- `C->access` past the list

def drain (d : D) : Nat → SIter → Option (List (List Nat))
  | 0, _ => some []
  | fuel + 1, it =>
    if it.processed < it.scanneable then
      match iterNext d it with
      | none => none
      | some (s, it') =>
        match drain d fuel it' with
        | some l => some (s :: l)
        | none => none
    else some []

/-- `StringDictionaryRPDAC::extractTable`: `IteratorDictStringRPDAC(G, terminals, Cdac, 0, elements, maxlength)`. -/
def extractTable (d : D) : Option (List (List Nat)) :=
  drain d d.seqs.length { processed := 0, scanneable := d.seqs.length }

end CSD.RPDAC


namespace CSD.RPDAC
open CSD.RePair

/-! ### prefix search -/

/-- `str[*pos] == '\0'`: the pattern is exhausted. -/
def atEnd (buf : List Nat) (pos : Nat) : Option Bool :=
  match buf[pos]? with
  | none => none
  | some c => some (c = 0)

/-- `expandRuleAndComparePrefixDAC(rule, str, &pos)`: as `cmpRule`, but between the two sides the
routine returns as soon as the pattern is exhausted. -/
def cmpRuleP (g : Grammar) (buf : List Nat) : Nat → Nat → Nat → Option (Int × Nat)
  | 0, _, _ => none
  | fuel + 1, rule, pos =>
    match g.rules[rule]? with
    | none => none
    | some (l, r) =>
      let side (s p : Nat) : Option (Int × Nat) :=
        if s ≥ g.terminals then cmpRuleP g buf fuel (s - g.terminals) p else cmpTerm buf s p
      match side l pos with
      | none => none
      | some (c, p) =>
        if c ≠ 0 then some (c, p) else
        match atEnd buf p with
        | none => none
        | some true => some (0, p)
        | some false => side r p

/-- The loop of `extractPrefixAndCompareDAC`: after every symbol, stop with 0 when the pattern is
exhausted. The last component tells whether it stopped that way. -/
def cmpSymsP (g : Grammar) (buf : List Nat) : List Nat → Nat → Option (Int × Nat × Bool)
  | [], pos => some (0, pos, false)
  | s :: rest, pos =>
    let r := if s ≥ g.terminals then cmpRuleP g buf (g.rules.length + 1) (s - g.terminals) pos else cmpTerm buf s pos
    match r with
    | none => none
    | some (c, p) =>
      if c ≠ 0 then some (c, p, false) else
      match atEnd buf p with
      | none => none
      | some true => some (0, p, true)
      | some false => cmpSymsP g buf rest p

/-- `extractPrefixAndCompareDAC(id, prefix, prefixLen)`. -/
def comparePrefixDAC (g : Grammar) (syms : List Nat) (p : List Nat) : Option Int :=
  let buf := p ++ [0]
  match cmpSymsP g buf syms 0 with
  | none => none
  | some (c, pos, stopped) =>
    if c ≠ 0 then some c
    else if stopped then some 0
    else if pos = p.length then some 0
    else match buf[pos]? with
      | some b => some (-(b : Int))
      | none => none

/-- First loop of `locatePrefix`: any ID whose string has the prefix (`some (center, left, right)`),
or `none` inside the outer `some` when there is none. -/
def findAny (cmp : Nat → Option Int) : Nat → Nat → Nat → Option (Option (Nat × Nat × Nat))
  | 0, _, _ => none
  | fuel + 1, left, right =>
    if left ≤ right then
      let center := (left + right) / 2
      match cmp center with
      | none => none
      | some c =>
        if c > 0 then findAny cmp fuel left (center - 1)
        else if c < 0 then findAny cmp fuel (center + 1) right
        else some (some (center, left, right))
    else some none

/-- Left boundary: `while (ll <= lr)`; returns the final `lr`. -/
def leftLoop (cmp : Nat → Option Int) : Nat → Nat → Nat → Option Nat
  | 0, _, _ => none
  | fuel + 1, ll, lr =>
    if ll ≤ lr then
      let lc := (ll + lr) / 2
      match cmp lc with
      | none => none
      | some c => if c = 0 then leftLoop cmp fuel ll (lc - 1) else leftLoop cmp fuel (lc + 1) lr
    else some lr

/-- Right boundary: `while (rl < rr - 1)`; returns the final `rl`. -/
def rightLoop (cmp : Nat → Option Int) : Nat → Nat → Nat → Option Nat
  | 0, _, _ => none
  | fuel + 1, rl, rr =>
    if rl < rr - 1 then
      let rc := (rl + rr) / 2
      match cmp rc with
      | none => none
      | some c => if c = 0 then rightLoop cmp fuel rc rr else rightLoop cmp fuel rl rc
    else some rl

/-- `StringDictionaryRPDAC::locatePrefix`: the ID range `(left, right)`, `(0, 0)` for no match. -/
def locatePrefix (d : D) (p : List Nat) : Option (Nat × Nat) :=
  let n := d.seqs.length
  let cmp : Nat → Option Int := fun id => match d.seqs[id - 1]? with
    | some syms => comparePrefixDAC d.g syms p
    | none => none
  match findAny cmp (n + 1) 1 n with
  | none => none
  | some none => some (0, 0)
  | some (some (center, left, right)) =>
    let l := if center > 1 then
        match leftLoop cmp (n + 1) left (center - 1) with
        | none => none
        | some lr => some (if lr > 0 then lr + 1 else 1)
      else some center
    let r := if center < n then rightLoop cmp (n + 2) center (right + 1) else some center
    match l, r with
    | some l, some r => some (l, r)
    | _, _ => none

/-- `StringDictionaryRPDAC::extractPrefix`: the string iterator with `processed = left − 1` (a `size_t`: it wraps to
`2^64 − 1` for the limits `(0, 0)` of an empty result, so `hasNext` is false at once) and `scanneable = right`. -/
def extractPrefix (d : D) (p : List Nat) : Option (List (List Nat)) :=
  match locatePrefix d p with
  | none => none
  | some (left, right) =>
    drain d right { processed := (left + 2 ^ 64 - 1) % 2 ^ 64, scanneable := right }

end CSD.RPDAC
