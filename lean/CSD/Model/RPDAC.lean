/-
  Model of the query layer of `StringDictionaryRPDAC` over a Re-Pair grammar:
  `RePair::expandRuleAndCompareString`, `RePair::extractStringAndCompareDAC`,
  `StringDictionaryRPDAC::locate` (binary search over the IDs) and `extract`.

  The stored string with ID `id` is a sequence of grammar symbols (what `DAC_VLS::access` /
  `access_next` deliver, see `CSD/Model/DAC.lean`); the query is a C string: the caller's
  bytes followed by a NUL. A read outside that buffer is `none`.
-/
import CSD.Spec
import CSD.Model.RePair

namespace CSD.RPDAC
open CSD.RePair

/-- Compare one terminal with the query at `pos`: `(uchar)sym - str[pos]`, advancing on equality. -/
def cmpTerm (buf : List Nat) (sym pos : Nat) : Option (Int × Nat) :=
  match buf[pos]? with
  | none => none
  | some c => if sym ≠ c then some ((sym : Int) - c, pos) else some (0, pos + 1)

/-- `expandRuleAndCompareString(rule, str, &pos)`: left side, then right side, each either a
terminal or a nested rule; stops at the first difference. `fuel` bounds the nesting. -/
def cmpRule (g : Grammar) (buf : List Nat) : Nat → Nat → Nat → Option (Int × Nat)
  | 0, _, _ => none
  | fuel + 1, rule, pos =>
    match g.rules[rule]? with
    | none => none
    | some (l, r) =>
      let side (s p : Nat) : Option (Int × Nat) :=
        if s ≥ g.terminals then cmpRule g buf fuel (s - g.terminals) p else cmpTerm buf s p
      match side l pos with
      | none => none
      | some (c, p) => if c ≠ 0 then some (c, p) else side r p

/-- The `while (id != -1)` loop of `extractStringAndCompareDAC` over the symbols of the string. -/
def cmpSyms (g : Grammar) (buf : List Nat) : List Nat → Nat → Option (Int × Nat)
  | [], pos => some (0, pos)
  | s :: rest, pos =>
    let r := if s ≥ g.terminals then cmpRule g buf (g.rules.length + 1) (s - g.terminals) pos else cmpTerm buf s pos
    match r with
    | none => none
    | some (c, p) => if c ≠ 0 then some (c, p) else cmpSyms g buf rest p

/-- `extractStringAndCompareDAC(id, str, strLen)`: positive when the stored string is greater. -/
def compareDAC (g : Grammar) (syms : List Nat) (q : List Nat) : Option Int :=
  let buf := q ++ [0]
  match cmpSyms g buf syms 0 with
  | none => none
  | some (c, pos) =>
    if c ≠ 0 then some c
    else if pos = q.length then some 0
    else match buf[pos]? with
      | some b => some (-(b : Int))
      | none => none

/-- The dictionary as the query layer sees it. -/
structure D where
  g : Grammar
  seqs : List (List Nat)

/-- `StringDictionaryRPDAC::locate`: binary search on the IDs `left … right`. -/
def locateLoop (cmp : Nat → Option Int) : Nat → Nat → Nat → Option Nat
  | 0, _, _ => none
  | fuel + 1, left, right =>
    if left ≤ right then
      let center := (left + right) / 2
      match cmp center with
      | none => none
      | some c =>
        if c > 0 then locateLoop cmp fuel left (center - 1)
        else if c < 0 then locateLoop cmp fuel (center + 1) right
        else some center
    else some 0

def locate (d : D) (q : List Nat) : Option Nat :=
  locateLoop (fun id => match d.seqs[id - 1]? with
    | some syms => compareDAC d.g syms q
    | none => none) (d.seqs.length + 1) 1 d.seqs.length

/-- `StringDictionaryRPDAC::extract`. -/
def extract (d : D) (id : Nat) : Option (List Nat) :=
  if id = 0 ∨ id > d.seqs.length then none else
  match d.seqs[id - 1]? with
  | some syms => some (d.g.expand syms)
  | none => none

end CSD.RPDAC
