/-
  Model of `utils/Coder/DecodingTable.cpp`: `processChunk` / `getSubstring` over a `ChunkScan`.

  The compressed text is read in chunks of `k` bits (`k = TABLEBITSO = 16`); the chunk indexes a table
  whose entry either lists the symbols that are completely encoded inside the chunk together with the
  number of bits they take (control byte: 4 bits length, 4 bits `bits − 1`), or points to the subtree
  of the code tree below the chunk when the chunk is a proper prefix of a longer codeword.

  The bit buffer (`c_chunk`, a 32-bit register of which the low `c_valid` bits are pending, refilled
  one byte at a time from `b_ptr`) is modelled as the list of pending bits, most significant first,
  and the list of bytes not yet read; the register arithmetic itself is not modelled.
-/
import CSD.Model.Codes

namespace CSD.ChunkDec
open CSD.Codes

/-- A table entry as `getSubstring` sees it. -/
inductive Entry where
  /-- `x.length ≠ 0`: symbols, consumed bits, and the `endings` bit of the index -/
  | str (syms : List Nat) (bits : Nat) (ending : Bool)
  /-- `x.length = 0`: the decoding subtree for a codeword longer than the chunk -/
  | sub (t : Tree)
  deriving Repr

/-- `ChunkScan`. -/
structure Scan where
  pend : List Bool      -- the `c_valid` pending bits of `c_chunk`, most significant first
  bytes : List Nat      -- the `b_remain` bytes from `b_ptr` on
  strLen : Nat
  advanced : Nat
  extracted : Nat
  deriving Repr

/-- The 8 bits of a byte, most significant first. -/
def byteBits (b : Nat) : List Bool := (List.range 8).map fun i => b.testBit (7 - i)

/-- The number a bit list (most significant first) denotes. -/
def bitsVal (l : List Bool) : Nat := l.foldl (fun a b => 2 * a + (if b then 1 else 0)) 0

/-- The `while (c_valid < k)` loop of `processChunk`: refill byte by byte; when the bytes are exhausted
the pending bits are shifted up and padded with zeros to `k` bits. -/
def refill (k : Nat) : Nat → List Bool → List Nat → Option (List Bool × List Nat)
  | 0, _, _ => none
  | fuel + 1, pend, bytes =>
    if pend.length < k then
      match bytes with
      | [] => some (pend ++ List.replicate (k - pend.length) false, [])
      | b :: rest => refill k fuel (pend ++ byteBits b) rest
    else some (pend, bytes)

/-- The subtree walk of `getSubstring`: one bit at a time, refilling a byte whenever no bit is pending.
`none` = a byte is read although none remains. -/
def walk : Nat → Tree → List Bool → List Nat → Option (Nat × List Bool × List Nat)
  | _, .leaf s, pend, bytes => some (s, pend, bytes)
  | 0, .node _ _, _, _ => none
  | fuel + 1, .node l r, pend, bytes =>
    match pend with
    | b :: pend' => walk fuel (if b then r else l) pend' bytes
    | [] =>
      match bytes with
      | [] => none
      | byte :: rest =>
        match byteBits byte with
        | b :: pend' => walk fuel (if b then r else l) pend' rest
        | [] => none

/-- Position just behind the first 0 at or after `jump` among the extracted symbols. -/
def findEnd (syms : List Nat) (jump : Nat) : Option Nat :=
  match (syms.drop jump).findIdx? (· == 0) with
  | some i => some (jump + i + 1)
  | none => none

/-- `processChunk`: what was written at `str[strLen …]`, the returned flag, and the new scan state.
`none` = the table has no usable entry for the chunk, or a read outside the bucket. -/
def processChunk (table : Nat → Option Entry) (k : Nat) (c : Scan) : Option (List Nat × Bool × Scan) :=
  match refill k (k + 2) c.pend c.bytes with
  | none => none
  | some (pend, bytes) =>
    let index := bitsVal (pend.take k)
    match table index with
    | none => none
    | some (.str syms bits ending) =>
      if bits > pend.length then none else
      let pend' := pend.drop bits
      let len := syms.length
      let jump := if c.extracted < 2 then 2 - c.extracted else 0
      let extracted := c.extracted + len
      if extracted ≤ 2 then
        some (syms, false, { pend := pend', bytes := bytes, strLen := c.strLen + len,
                             advanced := c.advanced + len, extracted := extracted })
      else
        match (if ending then findEnd syms jump else none) with
        | some e =>
          some (syms, true, { pend := pend', bytes := bytes, strLen := c.strLen + e,
                              advanced := len - e, extracted := extracted })
        | none =>
          some (syms, false, { pend := pend', bytes := bytes, strLen := c.strLen + len,
                               advanced := c.advanced, extracted := extracted })
    | some (.sub t) =>
      match walk 64 t (pend.drop k) bytes with
      | none => none
      | some (s, pend', bytes') =>
        some ([s], s == 0, { pend := pend', bytes := bytes', strLen := c.strLen + 1,
                              advanced := c.advanced, extracted := c.extracted + 1 })

/-- The bits still to be read. -/
def stream (pend : List Bool) (bytes : List Nat) : List Bool := pend ++ bytes.flatMap byteBits

/-- The subtree of `t` reached by the path `p` (`false` = left). -/
def subtreeAt : Tree → List Bool → Option Tree
  | t, [] => some t
  | .leaf _, _ :: _ => none
  | .node l r, b :: p => subtreeAt (if b then r else l) p

/-- The `k` bits of an index, most significant first. -/
def idxBits (k index : Nat) : List Bool := (List.range k).map fun i => index.testBit (k - 1 - i)

/-- What a table must satisfy with respect to the code tree: a listed string is non-empty, fits the
control byte, and its codewords concatenated are the first bits of the index — exactly the `bits` bits the
entry consumes, except that an entry whose last symbol is the string terminator 0 may also consume the
padding behind it (RPHTFC pads every header to a byte boundary and lets the entry of its last chunk
swallow the padding; nothing of the string follows a terminator); a subtree entry is the subtree of the
code tree below the index (an inner node); the `endings` bit says whether the string holds a 0. -/
def entryOK (t : Tree) (k index : Nat) : Entry → Bool
  | .str syms bits ending =>
    syms.length ≥ 1 && syms.length ≤ 15 && bits ≥ 1 && bits ≤ k &&
    (match encode t syms with
     | some enc => enc.length ≤ bits && enc == (idxBits k index).take enc.length &&
                   (enc.length == bits || syms.getLast? == some 0)
     | none => false) && ending == syms.contains 0
  | .sub st =>
    match subtreeAt t (idxBits k index) with
    | some (.node l r) => st == .node l r
    | _ => false

end CSD.ChunkDec
