/-
  Re-Pair as an abstract replacement system (`RePair/Coder/IRePair.cpp` decides
  *which* pair and *which* occurrences; that choice is not modelled), and the
  grammar the dictionaries read back (`RePair/RePair.cpp`: `expandRule`).

  Symbols below `terminals` are terminals; symbol `terminals + k` is rule `k`,
  whose two sides may only mention earlier symbols.
-/
namespace CSD.RePair

structure Grammar where
  terminals : Nat
  rules : List (Nat × Nat)
  deriving Repr

/-- Expansions of the rules, built in rule order: `table[k]` = terminals of rule `k`. -/
def expandWith (terminals : Nat) (table : List (List Nat)) (s : Nat) : List Nat :=
  if s < terminals then [s] else table.getD (s - terminals) []

def buildTable (terminals : Nat) : List (Nat × Nat) → List (List Nat) → List (List Nat)
  | [], table => table
  | (a, b) :: rest, table =>
    buildTable terminals rest (table ++ [expandWith terminals table a ++ expandWith terminals table b])

def Grammar.table (g : Grammar) : List (List Nat) := buildTable g.terminals g.rules []

/-- `expandRule` / terminal copy: the terminals a symbol stands for. -/
def Grammar.expandSym (g : Grammar) (s : Nat) : List Nat := expandWith g.terminals g.table s

/-- Expansion of a whole (compacted) sequence. -/
def Grammar.expand (g : Grammar) (seq : List Nat) : List Nat := seq.flatMap g.expandSym

/-- Every rule mentions only earlier symbols (what makes `expandRule` terminate). -/
def wellFounded (terminals : Nat) : Nat → List (Nat × Nat) → Bool
  | _, [] => true
  | k, (a, b) :: rest => a < terminals + k && b < terminals + k && wellFounded terminals (k + 1) rest

def Grammar.wf (g : Grammar) : Bool := wellFounded g.terminals 0 g.rules

/-- No rule side is the terminator 0. -/
def Grammar.zeroFree (g : Grammar) : Bool := g.rules.all fun (a, b) => a != 0 && b != 0

/-- One Re-Pair round: some non-overlapping occurrences of the pair `(a, b)` are
replaced by the fresh symbol `n` (left-to-right scan; which ones is free). -/
inductive Repl (a b n : Nat) : List Nat → List Nat → Prop where
  | nil : Repl a b n [] []
  | keep (x : Nat) {s s' : List Nat} : Repl a b n s s' → Repl a b n (x :: s) (x :: s')
  | replace {s s' : List Nat} : Repl a b n s s' → Repl a b n (a :: b :: s) (n :: s')

/-- `bits(n)`: number of bits needed to write `n`. -/
def bits (n : Nat) : Nat := if n = 0 then 0 else Nat.log2 n + 1

end CSD.RePair
