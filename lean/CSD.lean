import CSD.Spec
import CSD.Model.VByte
import CSD.Model.LogSeq
import CSD.Lemmas.VByte
