/-
  csd_model — the Lean half of the correspondence check.
  Reads a case file (same syntax as harness/drv.cpp) and prints, for every
  operation, the line the models / the specification say the implementation
  must print.  A token `?` means "not fixed by the model".
-/
import CSD.Driver.Util
import CSD.Driver.Dict
import CSD.Driver.Comp
import CSD.Driver.Kinds
import CSD.Driver.Check
import CSD.Driver.Chunks
import CSD.Driver.FMCheck
import CSD.Driver.RPFCCheck
import CSD.Driver.BVLSCheck

open CSD CSD.Driver

def runCase (c : Case) : IO Unit := do
  let out ← IO.getStdout
  let emit : Nat → String → IO Unit := fun k s => out.putStrLn s!"{c.id} {k} {s}"
  match c.stream with
  | "dict" => runDict c (modelFor c) emit
  | "vbyte" => runVByte c emit
  | "logseq" => runLogSeq c emit
  | "dac" => runDac c emit
  | "pool" => runPool c emit
  | "codes" | "bits" | "repair" | "rpdac" | "blkimg" => runCheckStreams c emit
  | "chunks" => runChunkStream c emit
  | "sweep" => runSweep c emit
  | "dacimg" => runDacImg c emit
  | "hhf" => runHhf c emit
  | "fm" => runFmStream c emit
  | "rpfc" => runRpfcStream c emit
  | "bvls" => runBvlsStream c emit
  | _ => emit 1 s!"ERR unknown-stream {c.stream}"

partial def loop (h : IO.FS.Stream) (cur : Option Case) : IO Unit := do
  let line ← h.getLine
  if line.isEmpty then return ()
  match tokens line with
  | "case" :: id :: stream :: rest =>
    let kind := rest.headD ""
    let par := (rest.drop 1).filterMap parseParam
    loop h (some { id := id, stream := stream, kind := kind, par := par })
  | ["s", hx] =>
    loop h (cur.map fun c => { c with strs := c.strs.push (unhex hx) })
  | "o" :: op =>
    loop h (cur.map fun c => { c with ops := c.ops.push op })
  | ["end"] =>
    match cur with
    | some c => runCase c
    | none => pure ()
    loop h none
  | _ => loop h cur

def main (args : List String) : IO Unit := do
  match args with
  | [path] =>
    let h ← IO.FS.Handle.mk path .read
    loop (IO.FS.Stream.ofHandle h) none
  | _ =>
    loop (← IO.getStdin) none
